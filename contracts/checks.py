"""Sidecar contracts for cutplace/checks.py: IsUniqueCheck and DistinctCountCheck (C05, C08)."""
import io, itertools, z3
from .common import *
from vf.unit import ProofUnit, NativeUnit, Oracle, sweep
from vf.model import *

LOCV = Tup(INT, INT)          # snapshot of a Location: (line, cell)
LS = sort_of(LOCV)


def loc_fields(line, cell):
    return {"file_path": "<io>", "_line": line, "_column": 0, "_cell": cell, "_sheet": 0, "_has_column": False, "_has_cell": True, "_has_sheet": False}


def enc_loc(st, v):
    st.ghost["stored_alias"] = bool(st.ghost.get("stored_alias")) or (v == st.ghost.get("loc"))
    o = st.heap[v.oid]; return LS.mk(lift(o["_line"]).z, lift(o["_cell"]).z)


def dec_loc(st, z):
    r = Ref("Location"); st.heap[r.oid] = loc_fields(Sym(INT, LS.accessor(0, 0)(z)), Sym(INT, LS.accessor(0, 1)(z))); return r


def setup_check_row(k):
    KEY = Tup(*([STR] * k))
    def setup(ex, st):
        names = [fresh(STR, "key_field%d" % i)[0] for i in range(k)]
        valf = z3.Function("row_value_of", z3.StringSort(), z3.StringSort())
        fmap = UFMap(STR, STR, valf)
        d, cons = fresh_ufdict(KEY, LS, "keymap", enc_loc, dec_loc); st.pc.extend(cons)
        loc = Ref("Location"); line = fresh(INT, "line")[0]; st.heap[loc.oid] = loc_fields(line, 0)
        self = Ref("IsUniqueCheck"); st.heap[self.oid] = {"_field_names_to_check": names, "_row_key_to_location_map": d, "_description": "u", "_rule": "r", "_field_names": Opaque()}
        st.frames[-1].env.update({"self": self, "field_name_to_value_map": fmap, "location": loc})
        keyz = sort_of(KEY).mk(*[valf(n.z) for n in names])
        st.ghost.update({"this": self, "d0": d, "key": Sym(KEY, keyz), "loc": loc, "line": line, "KEY": KEY})
    return setup


def sf_had(ex, st): return Sym(BOOL, st.ghost["d0"].has(st.ghost["key"].z))
def sf_map_unchanged(ex, st):
    d0 = st.ghost["d0"]; d1 = st.heap[st.ghost["this"].oid]["_row_key_to_location_map"]
    if d1 is d0: return Sym(BOOL, z3.BoolVal(True))
    k = z3.Const("k!mu", sort_of(st.ghost["KEY"]))
    return Sym(BOOL, z3.And(z3.ForAll([k], z3.And(d1.has(k) == d0.has(k), z3.Implies(d0.has(k), d1.val(k) == d0.val(k)))), d1.size == d0.size))
def sf_map_gained_key(ex, st):
    d0 = st.ghost["d0"]; d1 = st.heap[st.ghost["this"].oid]["_row_key_to_location_map"]; key = st.ghost["key"].z
    if not isinstance(d1, UFDict): return Sym(BOOL, z3.BoolVal(False))
    k = z3.Const("k!mg", sort_of(st.ghost["KEY"]))
    return Sym(BOOL, z3.And(d1.has(key), d1.val(key) == LS.mk(G(st, "line"), z3.IntVal(0)),
                            z3.ForAll([k], z3.Implies(k != key, z3.And(d1.has(k) == d0.has(k), d1.val(k) == d0.val(k)))), d1.size == d0.size + 1))
def sf_first_loc(ex, st): 
    z = st.ghost["d0"].val(st.ghost["key"].z); return Sym(INT, LS.accessor(0, 0)(z))


def is_unique_check_row_contract(k):
    return Contract("checks.IsUniqueCheck.check_row", setup_check_row(k),
        returns=[Clause("not had()", "accepted-only-if-no-earlier-row-has-the-same-key", props=["C05"]),
                 Clause("map_gained_key()", "registers-exactly-this-key-with-a-copy-of-the-current-location", props=["C05", "C08"]),
                 Clause("loc._line == line", "caller's-location-untouched", props=["C05"]),
                 Clause(lambda ex, st: Sym(BOOL, z3.BoolVal(not st.ghost.get("stored_alias"))), "stored-location-is-a-copy-not-the-reader's-moving-location", props=["C05"])],
        raises={"CheckError": [Clause("had()", "rejected-only-for-a-key-seen-before", props=["C05"]),
                               Clause("map_unchanged()", "rejection-registers-nothing", props=["C05"]),
                               Clause("exc._location is not loc and exc._location._line == line", "error-located-at-the-later-row", props=["C05"]),
                               Clause("exc._see_also_location is not None and exc._see_also_location._line == first_loc()", "error-refers-back-to-the-first-occurrence", props=["C05"])]},
        expect=["return", "CheckError"], n_loops=0, modifies=["IsUniqueCheck._row_key_to_location_map"])


class IsUniqueOracle(Oracle):
    quick_cases = 30000
    bound = "row sequences of 0-5 rows over key alphabet {a,b} x 1-2 key fields out of 2 fields; all pairs of rows over 12 separator-laden values with a two-field key"
    def cases(self, ctx):
        for nkeys in (1, 2):
            for n in range(0, 6):
                for rows in itertools.product(itertools.product("ab", repeat=2), repeat=n):
                    yield (nkeys, [list(r) for r in rows])
        # keys are tuples of cell texts, not a joined text: values containing separators a joined key would confuse
        tricky = ["a", "b", "a, b", ", ", "a,", ",b", "('a', 'b')", "a\tb", "", " a", "a b", "ab"]
        for r1 in itertools.product(tricky, repeat=2):
            for r2 in itertools.product(tricky, repeat=2):
                yield (2, [list(r1), list(r2)])
        # whatever text could be used to glue the cells of a key together: moving it from the end of one cell to the start of the next is another key
        for sep in ["\t", " ", ",", ";", ":", "|", "/", "-", "_", ".", "\0", "\x1f", "\x1e", "\n", "', '", "\\", '"', "'", "\u2028", "\ufffe", "\U0010ffff"]:
            yield (2, [["a" + sep, "b"], ["a", sep + "b"]])
            yield (2, [["a" + sep + "a", "a"], ["a", "a" + sep + "a"]])
            yield (2, [[sep, ""], ["", sep]])
            yield (2, [["a" + sep + "b", "c"], ["a", "b" + sep + "c"], ["a" + sep + "b", "c"]])
    def check(self, c):
        from cutplace import checks, errors
        nkeys, rows = c
        chk = checks.IsUniqueCheck("u", "f0" if nkeys == 1 else "f0, f1", ["f0", "f1"])
        seen = {}
        loc = errors.Location("<io>", has_cell=True)
        for i, r in enumerate(rows):
            key = tuple(r[:nkeys])
            try: chk.check_row({"f0": r[0], "f1": r[1]}, loc); obs = None
            except errors.CheckError as e: obs = e
            except Exception as e: return {"expected": "verdict", "observed": repr(e)}
            if (key in seen) != (obs is not None): return {"expected": "row %d %s" % (i, "rejected" if key in seen else "accepted"), "observed": "rejected" if obs else "accepted"}
            if obs is not None:
                if obs.location.line != i or obs.see_also_location is None or obs.see_also_location.line != seen[key]:
                    return {"expected": "error at row %d referring to row %d" % (i, seen[key]), "observed": "%s / %s" % (obs.location, obs.see_also_location)}
            else: seen[key] = i
            loc.advance_line()
        chk.reset()
        try: chk.check_row({"f0": "a", "f1": "a"}, loc)
        except errors.CheckError: return {"expected": "nothing remembered after reset()", "observed": "duplicate reported after reset"}
        return None
    def describe(self, c): return {"key_fields": c[0], "rows": c[1], "call": "IsUniqueCheck(...).check_row for each row, then reset()"}


def unit_is_unique_check_row():
    def make(ctx):
        sf = {"had": sf_had, "map_unchanged": sf_map_unchanged, "map_gained_key": sf_map_gained_key, "first_loc": sf_first_loc}
        return [{"contract": is_unique_check_row_contract(k), "spec_functions": sf, "label": "%d key field(s)" % k,
                 "assumptions": ["the key map is a symbolic dict (has/val functions over key tuples); stored locations are snapshots (line, cell) of the copies made by copy.copy",
                                 "the row is an abstract map field name -> cell text; key fields are K arbitrary names (case split K = 1, 2, 3)"]} for k in (1, 2, 3)]
    return ProofUnit("checks.IsUniqueCheck.check_row", "IsUniqueCheck.check_row: rejects iff key present; error at the later row referring to the first; registers exactly the new key", ["C05", "C08"], make, IsUniqueOracle())


# ---------------------------------------------------------------- reset
def unit_check_resets():
    def make(ctx):
        out = []
        for cls, attr in (("IsUniqueCheck", "_row_key_to_location_map"), ("DistinctCountCheck", "_distinct_value_to_count_map")):
            def setup(ex, st, cls=cls, attr=attr):
                d, cons = fresh_ufdict(Tup(STR), z3.IntSort(), "old"); st.pc.extend(cons)
                self = Ref(cls); st.heap[self.oid] = {attr: d}; st.frames[-1].env["self"] = self; st.ghost["this"] = self; st.ghost["attr"] = attr
            def empty(ex, st):
                v = st.heap[st.ghost["this"].oid][st.ghost["attr"]]
                return Sym(BOOL, z3.BoolVal(isinstance(v, dict) and len(v) == 0))
            out.append({"contract": Contract("checks.%s.reset" % cls, setup, returns=[Clause(empty, "reset-forgets-everything", props=["C08", "C05"])], raises={}, expect=["return"], n_loops=0, modifies=["%s.%s" % (cls, attr)]),
                        "label": cls})
        return out
    return ProofUnit("checks.reset", "reset() of the built-in checks establishes the empty state whatever the previous state", ["C08", "C05"], make, None)


class DefaultHooksOracle(Oracle):
    """native twin: a user-defined check that overrides nothing is asked through every hook"""
    bound = "4 hooks x a check class without overrides, called directly and through a reader over 0-2 rows"
    def cases(self, ctx): return [("reset", 0), ("check_row", 0), ("check_at_end", 0), ("cleanup", 0), ("reader", 0), ("reader", 1), ("reader", 2)]
    def check(self, c):
        import io
        from cutplace import checks, errors, interface, validio
        hook, n = c
        cls = type("BareDefaultsCheck", (checks.AbstractCheck,), {})
        if hook == "reader":
            cid = interface.Cid(); cid.read("c", [["d", "format", "delimited"], ["f", "a"], ["c", "bare", "BareDefaults", "a"]])
            try: got = list(validio.rows(cid, io.StringIO("x\n" * n)))
            except Exception as e: return {"expected": "%d rows accepted" % n, "observed": repr(e)}
            return None if got == [["x"]] * n else {"expected": "%d rows accepted" % n, "observed": repr(got)}
        chk = cls("bare", "a", ["a"]); before = dict(vars(chk)); loc = errors.Location("<io>", has_cell=True)
        args = {"reset": (), "check_row": ({"a": "x"}, loc), "check_at_end": (loc,), "cleanup": ()}[hook]
        try: r = getattr(chk, hook)(*args)
        except Exception as e: return {"expected": "%s() returns None" % hook, "observed": repr(e)}
        if r is not None: return {"expected": "%s() returns None" % hook, "observed": repr(r)}
        for a_ in ("description", "rule", "field_names"):        # what the check was declared with is still what it says about itself
            if getattr(chk, a_) != {"description": "bare", "rule": "a", "field_names": ["a"]}[a_]: return {"expected": "%s unchanged" % a_, "observed": repr(getattr(chk, a_))}
        return None


def unit_abstract_check_defaults():
    """the hooks a user-defined check does not override: AbstractCheck.reset / check_row / check_at_end / cleanup accept and return None"""
    def make(ctx):
        out = []
        for meth, params in (("reset", []), ("check_row", ["field_name_to_value_map", "location"]), ("check_at_end", ["location"]), ("cleanup", [])):
            def setup(ex, st, params=params):
                loc = Ref("Location"); st.heap[loc.oid] = loc_fields(fresh(INT, "line")[0], 0)
                self = Ref("AbstractCheck"); st.heap[self.oid] = {"_description": fresh(STR, "description")[0], "_rule": fresh(STR, "rule")[0], "_field_names": fresh(UFList(STR), "names")[0]}
                st.frames[-1].env["self"] = self; st.ghost["this"] = self
                valf = z3.Function("row_value_of_default", z3.StringSort(), z3.StringSort())
                for p_ in params: st.frames[-1].env[p_] = loc if p_ == "location" else UFMap(STR, STR, valf)
            none = lambda ex, st: Sym(BOOL, z3.BoolVal(st.ghost["__result__"] is None))
            out.append({"contract": Contract("checks.AbstractCheck.%s" % meth, setup, returns=[Clause(none, "the-default-hook-accepts:-returns-None", props=["C20"])], raises={}, expect=["return"], n_loops=0,
                                             modifies=None), "label": meth})       # no frame clause: C20 asks the defaults to accept, not to leave private attributes alone
        return out
    return ProofUnit("checks.AbstractCheck.defaults", "AbstractCheck's default reset / check_row / check_at_end / cleanup: accept and return None", ["C20"], make, DefaultHooksOracle())


# ---------------------------------------------------------------- DistinctCountCheck
def setup_distinct(ex, st):
    name = fresh(STR, "field_to_count")[0]
    valf = z3.Function("row_value_of", z3.StringSort(), z3.StringSort()); fmap = UFMap(STR, STR, valf)
    d, cons = fresh_ufdict(STR, z3.IntSort(), "counts"); st.pc.extend(cons)
    loc = Ref("Location"); st.heap[loc.oid] = loc_fields(fresh(INT, "line")[0], 0)
    self = Ref("DistinctCountCheck"); st.heap[self.oid] = {"_field_name_to_count": name, "_distinct_value_to_count_map": d, "_expression": fresh(STR, "expression")[0], "_description": "d", "_rule": "r"}
    st.frames[-1].env.update({"self": self, "field_name_to_value_map": fmap, "location": loc})
    st.ghost.update({"this": self, "d0": d, "value": Sym(STR, valf(name.z)), "loc": loc})


def sf_count_updated(ex, st):
    d0 = st.ghost["d0"]; d1 = st.heap[st.ghost["this"].oid]["_distinct_value_to_count_map"]; v = st.ghost["value"].z
    if not isinstance(d1, UFDict): return Sym(BOOL, z3.BoolVal(False))
    k = z3.String("k!cu")
    return Sym(BOOL, z3.And(d1.has(v), d1.val(v) == z3.If(d0.has(v), d0.val(v) + 1, 1), d1.size == z3.If(d0.has(v), d0.size, d0.size + 1),
                            z3.ForAll([k], z3.Implies(k != v, z3.And(d1.has(k) == d0.has(k), d1.val(k) == d0.val(k))))))


def m_eval(ex, st, fn, args, kw):
    """A-EVAL: eval(expression, {}, {'count': n}) is an abstract function of (expression, n): a bool, another value, or an exception"""
    expr = lift(args[0]).z; loc_vars = args[2]; n = lift(loc_vars["count"]).z
    kind = ex.absfun_s("eval_kind", [z3.StringSort(), z3.IntSort()], z3.IntSort())(expr, n)      # 0 bool, 1 non-bool value, 2 raises
    res = ex.absfun_s("eval_bool", [z3.StringSort(), z3.IntSort()], z3.BoolSort())(expr, n)
    s0 = st
    if feasible(s0.pc, kind == 2):
        sb = s0.copy(); sb.pc.append(kind == 2); yield sb, Raise(ex.new_builtin_exc(sb, "Exception", ["eval failed"]))
    if feasible(s0.pc, kind == 1):
        sc = s0.copy(); sc.pc.append(kind == 1); yield sc, Sym(STR, z3.StringVal("not-a-bool"))
    s0.pc.append(kind == 0); yield s0, Sym(BOOL, res)


def sf_expr_true(ex, st):
    o = st.heap[st.ghost["this"].oid]; expr = lift(o["_expression"]).z; n = st.ghost["d0"].size
    return Sym(BOOL, z3.And(ex.absfun_s("eval_kind", [z3.StringSort(), z3.IntSort()], z3.IntSort())(expr, n) == 0, ex.absfun_s("eval_bool", [z3.StringSort(), z3.IntSort()], z3.BoolSort())(expr, n)))
def sf_expr_is_bool(ex, st):
    o = st.heap[st.ghost["this"].oid]; expr = lift(o["_expression"]).z; n = st.ghost["d0"].size
    return Sym(BOOL, ex.absfun_s("eval_kind", [z3.StringSort(), z3.IntSort()], z3.IntSort())(expr, n) == 0)


def unit_distinct_count():
    def make(ctx):
        cr = Contract("checks.DistinctCountCheck.check_row", setup_distinct,
                returns=[Clause("count_updated()", "counts-the-value-of-its-field-distinct-count-grows-only-for-a-new-value", props=["C05"])], raises={},
                expect=["return"], n_loops=0, modifies=["DistinctCountCheck._distinct_value_to_count_map"])
        ce = Contract("checks.DistinctCountCheck.check_at_end", setup_distinct,
                requires=["expr_is_bool()"],
                returns=[Clause("expr_true()", "passes-only-if-the-comparison-holds-for-the-number-of-distinct-values", props=["C05"])],
                raises={"CheckError": [Clause("not expr_true()", "fails-only-if-the-comparison-does-not-hold", props=["C05"])]},
                expect=["return", "CheckError"], n_loops=0, modifies=[])
        sf = {"count_updated": sf_count_updated, "expr_true": sf_expr_true, "expr_is_bool": sf_expr_is_bool}
        A = ["A-EVAL: eval('count' + <comparison> <n>, {}, {'count': c}) is the comparison (audited: 6 operators x thresholds 0..4 x counts 0..6)",
             "len(dict) is the number of distinct keys inserted since reset (dict semantics carried by the symbolic dict's size)"]
        return [{"contract": cr, "spec_functions": sf, "label": "check_row", "assumptions": A},
                {"contract": ce, "spec_functions": sf, "callees": {"builtin:eval": m_eval}, "label": "check_at_end", "assumptions": A}]
    return ProofUnit("checks.DistinctCountCheck", "DistinctCountCheck: check_row counts distinct values of its field; check_at_end fails iff the comparison is false for that count", ["C05"], make, DistinctOracle())


class DistinctOracle(Oracle):
    quick_cases = 4000
    bound = "6 comparison operators x thresholds 0..4 x value sequences of 0..5 rows over {a,b,c} (rule spelling with varied blanks)"
    OPS = ["<", "<=", "==", "!=", ">=", ">"]
    def cases(self, ctx):
        k = 0
        for op in self.OPS:
            for n in range(0, 5):
                for ln in range(0, 6):
                    for vals in itertools.product("abc", repeat=ln):
                        k += 1
                        if ln >= 4 and k % 5 and not ctx.thorough: continue
                        yield (op, n, list(vals), k % 3)
    def check(self, c):
        from cutplace import checks, errors
        import operator
        op, n, vals, sp = c
        rule = ["kind%s%d", "kind %s %d", " kind  %s  %d "][sp] % (op, n) if sp != 2 else "kind  %s  %d" % (op, n)
        try: chk = checks.DistinctCountCheck("d", rule, ["id", "kind"])
        except Exception as e: return {"expected": "rule %r accepted" % rule, "observed": repr(e)}
        loc = errors.Location("<io>", has_cell=True)
        for v in vals: chk.check_row({"id": "1", "kind": v}, loc)
        want = {"<": operator.lt, "<=": operator.le, "==": operator.eq, "!=": operator.ne, ">=": operator.ge, ">": operator.gt}[op](len(set(vals)), n)
        try: chk.check_at_end(loc); obs = True
        except errors.CheckError: obs = False
        except Exception as e: return {"expected": want, "observed": repr(e)}
        return None if obs == want else {"expected": "end check %s" % ("passes" if want else "fails"), "observed": "passes" if obs else "fails"}
    def describe(self, c): return {"rule": "kind %s %d" % (c[0], c[1]), "values": c[2], "call": "DistinctCountCheck(...).check_row per value, check_at_end"}


# ---------------------------------------------------------------- end to end (bounded) and the recorded multi-check finding K-1
def unit_c05_sweep():
    def run(ctx):
        from cutplace import interface, validio, errors
        import operator
        OPS = {"<": operator.lt, "<=": operator.le, "==": operator.eq, "!=": operator.ne, ">=": operator.ge, ">": operator.gt}
        def cases():
            k = 0
            for keyspec, keyidx in (("id", (0,)), ("id, name", (0, 1)), ("name,kind,id", (1, 2, 0))):
                for n in range(0, 5 if not ctx.thorough else 7):
                    for rows in itertools.product([("1", "x", "a"), ("2", "x", "a"), ("1", "y", "b"), ("bad", "x", "a"), ("01", "x", "a")], repeat=n):        # '01' and '1' are different cell values
                        k += 1
                        if n >= 4 and k % 4 and not ctx.thorough: continue
                        yield ("unique", keyspec, keyidx, rows, ("raise", "yield", "continue")[k % 3])
            for op in OPS:
                for thr in range(0, 4):
                    for n in range(0, 4):
                        for rows in itertools.product([("1", "x", "a"), ("2", "x", "b"), ("3", "y", "c"), ("bad", "x", "d")], repeat=n):
                            yield ("distinct", op, thr, rows, "continue")
        def check(c):
            kind = c[0]
            if kind == "unique":
                _, keyspec, keyidx, rows, mode = c
                cid = interface.create_cid_from_string('d,format,delimited\nf,id,,,,Integer\nf,name\nf,kind\nc,u,IsUnique,"%s"\n' % keyspec)
                text = "".join(",".join(r) + "\n" for r in rows)
                seen = {}; exp = []
                for i, r in enumerate(rows):
                    if r[0] == "bad": exp.append(("E", i, None)); continue
                    key = tuple(r[j] for j in keyidx)
                    if key in seen: exp.append(("E", i, seen[key]))
                    else: seen[key] = i; exp.append(("R", i, None))
                got = []; raised = None
                try:
                    for x in validio.rows(cid, io.StringIO(text), on_error=mode):
                        got.append(("E", x.location.line, x.see_also_location.line if x.see_also_location else None) if isinstance(x, errors.DataError) else "R")
                except errors.DataError as e: raised = ("E", e.location.line, e.see_also_location.line if e.see_also_location else None)
                if mode == "yield": want = [e if e[0] == "E" else "R" for e in exp]; wraise = None
                elif mode == "continue": want = ["R" for e in exp if e[0] == "R"]; wraise = None
                else:
                    first = next((j for j, e in enumerate(exp) if e[0] == "E"), None)
                    want = ["R"] * (len(exp) if first is None else first); wraise = None if first is None else exp[first]
                if got != want or raised != wraise: return {"expected": (want, wraise), "observed": (got, raised)}
                return None
            _, op, thr, rows, mode = c
            cid = interface.create_cid_from_string('d,format,delimited\nf,id,,,,Integer\nf,name\nf,kind\nc,d,DistinctCount,kind %s %d\n' % (op, thr))
            text = "".join(",".join(r) + "\n" for r in rows)
            want = OPS[op](len({r[2] for r in rows if r[0] != "bad"}), thr)
            # "the rows that reached the check" of *this* data set: an earlier data set read with the same CID (three other kinds) must not count
            for _ in validio.rows(cid, io.StringIO("7,p,x\n8,q,y\n9,r,z\n"), on_error="yield"): break       # abandoned midway
            try:
                for _ in validio.rows(cid, io.StringIO("7,p,x\n8,q,y\n9,r,z\n"), on_error="continue"): pass
            except errors.CheckError: pass
            try:
                for _ in validio.rows(cid, io.StringIO(text), on_error="continue"): pass
                obs = True
            except errors.CheckError: obs = False
            return None if obs == want else {"expected": "end check %s for this data set (after two earlier data sets with other values under the same CID)" % ("passes" if want else "fails"), "observed": "passes" if obs else "fails"}
        # several checks of the same kind in one CID keep separate books (each over its own field)
        def multi_cases():
            for op1, t1 in (("<", 3), (">=", 2), ("==", 1)):
                for op2, t2 in (("<", 2), (">=", 3), ("!=", 2)):
                    for n in range(0, 4):
                        for rows in itertools.product([("1", "x", "a"), ("2", "x", "b"), ("3", "y", "c")], repeat=n):
                            yield (op1, t1, op2, t2, rows)
        def multi_check(c):
            op1, t1, op2, t2, rows = c
            cid = interface.create_cid_from_string('d,format,delimited\nf,id,,,,Integer\nf,name\nf,kind\nc,names,DistinctCount,name %s %d\nc,kinds,DistinctCount,kind %s %d\n' % (op1, t1, op2, t2))
            text = "".join(",".join(r) + "\n" for r in rows)
            w1 = OPS[op1](len({r[1] for r in rows}), t1); w2 = OPS[op2](len({r[2] for r in rows}), t2)
            try:
                for _ in validio.rows(cid, io.StringIO(text)): pass
                obs = True
            except errors.CheckError: obs = False
            want = w1 and w2
            return None if obs == want else {"expected": "end of data %s (names %s %d: %s, kinds %s %d: %s)" % ("passes" if want else "fails", op1, t1, w1, op2, t2, w2), "observed": "passes" if obs else "fails"}
        multi = sweep("C05/sweep/two DistinctCount checks in one CID count their own fields", multi_cases(), multi_check, "bounded", "3 x 3 comparisons x row sequences of 0-3 rows over a 3-row pool", describe=lambda c: {"case": list(c)}, function="checks + validio", unit="C05.sweep")
        return [multi, sweep("C05/sweep/IsUnique and DistinctCount through validio.rows", cases(), check, "bounded",
                      "IsUnique over 1-3 key fields x row sequences of 0-4 rows (0-6 thorough) over a 5-row pool incl. a field-rejected row and a differently spelled number x 3 modes; DistinctCount 6 operators x thresholds 0-3 x sequences of 0-3 rows",
                      describe=lambda c: {"case": list(c)}, function="checks + validio", unit="C05.sweep")]
    return NativeUnit("C05.sweep", "end-to-end bounded sweep of the two built-in checks through validio.rows (single check per CID)", ["C05"], run, kind="bounded")


def unit_k1_witness():
    def run(ctx):
        from cutplace import interface, validio, errors
        cid = interface.create_cid_from_string("d,format,delimited\nf,id\nf,name\nc,uid,IsUnique,id\nc,uname,IsUnique,name\n")
        out = list(validio.rows(cid, io.StringIO("1,x\n2,x\n2,y\n"), on_error="yield"))
        third_rejected = isinstance(out[2], errors.DataError)
        ok_shape = isinstance(out[0], list) and isinstance(out[1], errors.DataError)
        if not ok_shape:
            return [Result("C05/K-1 witness/rows 1 and 2", "bounded", FAILED, "native", detail="unexpected verdicts %r" % (out,), replay={"verdict": "confirmed", "input": "rows (1,x) (2,x) (2,y) under IsUnique id + IsUnique name", "expected": "row 1 accepted, row 2 rejected (duplicate name)", "observed": repr(out)})]
        if third_rejected:
            return [Result("C05/K-1 witness: a row vetoed by a later check still registers its key with an earlier check", "bounded", FAILED, "native", finding="K-1", cases=1,
                           detail="checks IsUnique id, IsUnique name; rows (1,x) (2,x) (2,y): row 3 rejected as duplicate id although no accepted row has id 2",
                           replay={"verdict": "confirmed", "input": "CID with checks IsUnique id and IsUnique name; data 1,x / 2,x / 2,y", "expected": "row 3 accepted (the only earlier row with id 2 was rejected)", "observed": str(out[2])})]
        return [Result("C05/K-1 witness", "bounded", PASSED, "native", cases=1)]
    return NativeUnit("C05.witness.K-1", "replay of recorded finding K-1 (multi-check CIDs register keys of rows a later check rejects)", ["C05"], run, kind="bounded")


# =====================================================================================================================
# IsUniqueCheck.__init__: rule parsing at token level (C09, C05)
# =====================================================================================================================
import token as TK
TOKEN5 = Tup(INT, STR)


def unit_is_unique_init():
    T5 = sort_of(TOKEN5); ttype = T5.accessor(0, 0); ttext = T5.accessor(0, 1)
    def m_generated_tokens(ex, st, fn, args, kw):
        it = Ref("TokenIter"); st.heap[it.oid] = {"cursor": 0}; st.ghost["iter"] = it
        ex.obligations.append(Obligation("tokenizes-the-rule", st.pc, z3.BoolVal(args[0] is st.ghost["rule"]), "post", props=["C09"]))
        yield st, it
    def tok_next(ex, st, recv, args, kw):
        o = st.heap[recv.oid]; T = st.ghost["T"]; c = lift(o["cursor"]).z
        if lift(o["cursor"]).z is not None and st.ghost.get("may_fail") and not st.ghost.get("started"):
            sb = st.copy(); sb.ghost["tok_failed"] = True; yield sb, Raise(ex.new_builtin_exc(sb, "TokenError", ["cannot tokenize"]))
        st.ghost["started"] = True
        if feasible(st.pc, c >= T.length):
            sb = st.copy(); sb.pc.append(c >= T.length); yield sb, Raise(ex.new_builtin_exc(sb, "StopIteration", []))
        st.pc.append(z3.And(c >= 0, c < T.length)); o["cursor"] = Sym(INT, c + 1)
        yield st, Sym(TOKEN5, T.at(c))
    def m_field_name_index(ex, st, fn, args, kw):
        known = ex.absfun_s("is_declared_field", [z3.StringSort()], z3.BoolSort())(lift(args[0]).z)
        for s2, b in ex.fork(st, Sym(BOOL, known)):
            if b: yield s2, fresh(INT, "idx")[0]
            else: yield from raise_new(ex, s2, "InterfaceError")
    def m_set(ex, st, fn, args, kw): yield st, []
    def setup(ex, st):
        T, c = fresh(UFList(TOKEN5), "T"); st.pc.extend(c)
        n = fresh(INT, "n")[0]; st.pc.append(n.z >= 0)      # tokens before the end marker
        st.pc.append(T.length == n.z + 1); st.pc.append(ttype(T.at(n.z)) == TK.ENDMARKER)
        j = z3.Int("j"); st.pc.append(z3.ForAll([j], z3.Implies(z3.And(0 <= j, j < n.z), ttype(T.at(j)) != TK.ENDMARKER)))
        names, c2 = fresh(UFList(STR), "available"); st.pc.extend(c2); st.pc.append(names.length >= 1)
        rule = fresh(STR, "rule")[0]
        loc = Ref("Location"); st.heap[loc.oid] = loc_fields(fresh(INT, "line")[0], 0)
        self = Ref("IsUniqueCheck"); st.heap[self.oid] = {}
        st.frames[-1].env.update({"self": self, "description": "u", "rule": rule, "available_field_names": names, "location": loc})
        st.ghost.update({"T": T, "n": n, "rule": rule, "this": self, "may_fail": True, "started": False, "dup": False})
        def before_dup(ex_, s):
            # the code found the current name among the names seen so far (each of which is an earlier even-position token, by the invariant)
            env = s.frames[-1].env; u = env["unique_field_names"]; tv = lift(env["token_value"]).z; j = z3.Int("j!dup")
            ex_.obligations.append(Obligation("duplicate-is-reported-only-for-a-name-seen-before", s.pc, z3.Exists([j], z3.And(0 <= j, j < u.length, u.at(j) == tv)) if isinstance(u, UFL) else z3.BoolVal(False), "post", props=["C09"]))
            s.ghost["dup"] = True
        ex.stmt_hooks_before["raise errors.InterfaceError('duplicate field name for unique check must be removed: %s' % token_value, self.location_of_rule)"] = before_dup
    def is_name(t): return ttype(t) == TK.NAME
    def is_comma(t): return z3.And(ttype(t) == TK.OP, ttext(t) == ",")
    def declared(ex, t): return ex.absfun_s("is_declared_field", [z3.StringSort()], z3.BoolSort())(ttext(t))
    def wf_upto(ex, st, k):
        """tokens 0..k-1: names at even positions (declared, pairwise distinct), commas at odd positions"""
        T = st.ghost["T"]; kk = lift(k).z; j = z3.Int("j!wf"); i = z3.Int("i!wf")
        shape = z3.ForAll([j], z3.Implies(z3.And(0 <= j, j < kk), z3.If(j % 2 == 0, z3.And(is_name(T.at(j)), declared(ex, T.at(j))), is_comma(T.at(j)))))
        distinct = z3.ForAll([i, j], z3.Implies(z3.And(0 <= i, i < j, j < kk, i % 2 == 0, j % 2 == 0), ttext(T.at(i)) != ttext(T.at(j))))
        return Sym(BOOL, z3.And(shape, distinct))
    def names_upto(ex, st, lst, k):
        """lst == the names at the even positions below k, in order"""
        T = st.ghost["T"]; kk = lift(k).z; j = z3.Int("j!nu")
        if isinstance(lst, list): return Sym(BOOL, z3.And(z3.BoolVal(len(lst) == 0), kk <= 0))
        return Sym(BOOL, z3.And(lst.length == (kk + 1) / 2, z3.ForAll([j], z3.Implies(z3.And(0 <= j, j < lst.length), lst.at(j) == ttext(T.at(2 * j))))))
    def cursor(ex, st): return st.heap[st.ghost["iter"].oid]["cursor"]
    def make(ctx):
        c = Contract("checks.IsUniqueCheck.__init__", setup,
                returns=[Clause("wf_upto(n) and n >= 1", "accepted-only-a-rule-of-declared-pairwise-distinct-field-names-separated-by-commas", props=["C09", "C05"]),
                         Clause("names_upto(this._field_names_to_check, n)", "key-fields-are-the-named-fields-in-rule-order", props=["C09", "C05"]),
                         Clause(lambda ex, st: Sym(BOOL, z3.BoolVal(isinstance(st.heap[st.ghost["this"].oid].get("_row_key_to_location_map"), dict) and not st.heap[st.ghost["this"].oid]["_row_key_to_location_map"])), "starts-with-an-empty-key-map", props=["C05", "C08"])],
                raises={"InterfaceError": [Clause(lambda ex, st: Sym(BOOL, z3.Or(z3.BoolVal(bool(st.ghost["dup"]) or bool(st.ghost.get("tok_failed"))), z3.Not(z3.And(wf_upto(ex, st, st.ghost["n"]).z, G(st, "n") >= 1)))), "refused-only-if-the-rule-cannot-be-tokenized-is-not-such-a-list-or-repeats-a-name", props=["C09"])]},
                loops={0: LoopSpec(invariants=["cursor() >= 1 and cursor() <= n + 1", "wf_upto(cursor() - 1)", "after_comma == ((cursor() - 1) % 2 == 0)", "names_upto(this._field_names_to_check, cursor() - 1)",
                                               "names_upto(unique_field_names, cursor() - 1)", "next_token == T[cursor() - 1]"],
                                   havoc={"next_token": TOKEN5, "token_type": INT, "token_value": STR, "after_comma": BOOL, "unique_field_names": UFList(STR), "this._field_names_to_check": UFList(STR), "iter.cursor": INT})},
                expect=["return", "InterfaceError"], n_loops=1, raises_only_props=["C09", "C10"])
        return {"contract": c, "callees": {"checks.generated_tokens": ModelContract(m_generated_tokens), "_tools.generated_tokens": ModelContract(m_generated_tokens), "ref:TokenIter.__next__": tok_next,
                                           "fields.field_name_index": ModelContract(m_field_name_index), "builtin:set": m_set},
                "spec_functions": {"wf_upto": wf_upto, "names_upto": names_upto, "cursor": cursor},
                "assumptions": ["A-TOK: generated_tokens(rule) delivers a finite token sequence ending in exactly one ENDMARKER, or raises TokenError / SyntaxError at the first next()",
                                "fields.field_name_index raises InterfaceError iff the name is not a declared field; the Python set of seen names is modelled as a list (membership and add only)",
                                "a trailing comma ('id,') is accepted by the code; the statement does not forbid it, the contract does not either"]}
    return ProofUnit("checks.IsUniqueCheck.__init__", "IsUniqueCheck.__init__: rule = declared, pairwise distinct field names separated by commas (token-level loop invariant)", ["C09", "C05", "C10"], make, None)


def unit_distinct_count_init():
    import token as TK
    POS = Tup(INT, INT); TOKD = Tup(INT, STR, POS, POS); TD = sort_of(TOKD); PS = sort_of(POS)
    ttype = TD.accessor(0, 0); ttext = TD.accessor(0, 1); tend = TD.accessor(0, 3); pline = PS.accessor(0, 0); pcol = PS.accessor(0, 1)
    def setup(ex, st):
        first = fresh(TOKD, "first_token")[0]; rule = fresh(STR, "rule")[0]
        # A-TOK (first token): a NAME token that starts the rule ends on line 1 at a column > 0, and the rule text before that column ends with the name
        c = pcol(tend(first.z)); t = ttext(first.z)
        # (a rule starting with a backslash and a line break has its first NAME on a later line: the constructor refuses it)
        st.pc.append(z3.Implies(ttype(first.z) == TK.NAME, z3.And(pline(tend(first.z)) >= 1, z3.Implies(pline(tend(first.z)) == 1, z3.And(c > 0, c <= z3.Length(rule.z), z3.Length(t) > 0, z3.SubString(rule.z, c - z3.Length(t), z3.Length(t)) == t)))))
        names, c2 = fresh(UFList(STR), "available"); st.pc.extend(c2)
        loc = Ref("Location"); st.heap[loc.oid] = loc_fields(fresh(INT, "line")[0], 0)
        self = Ref("DistinctCountCheck"); st.heap[self.oid] = {}
        st.frames[-1].env.update({"self": self, "description": "d", "rule": rule, "available_field_names": names, "location": loc})
        st.ghost.update({"first": first, "rule": rule, "this": self, "names": names, "tok_failed": False, "lookup": None, "lookup_failed": False, "compile_failed": False, "compiled": None})
    def m_generated_tokens(ex, st, fn, args, kw):
        it = Ref("TokenIter"); st.heap[it.oid] = {"cursor": 0}
        ex.obligations.append(Obligation("tokenizes-the-rule", st.pc, z3.BoolVal(args[0] is st.ghost["rule"]), "post", props=["C09"]))
        yield st, it
    def tok_next(ex, st, recv, args, kw):
        for cls in ("TokenError", "SyntaxError"):
            sb = st.copy(); sb.ghost["tok_failed"] = True; yield sb, Raise(ex.new_builtin_exc(sb, cls, ["cannot tokenize"]))
        yield st, st.ghost["first"]
    def m_field_name_index(ex, st, fn, args, kw):
        st.ghost["lookup"] = (args[0], args[1])
        known = ex.absfun_s("is_declared_field", [z3.StringSort()], z3.BoolSort())(lift(args[0]).z)
        for s2, b in ex.fork(st, Sym(BOOL, known)):
            if b: yield s2, fresh(INT, "idx")[0]
            else: s2.ghost["lookup_failed"] = True; yield from raise_new(ex, s2, "InterfaceError")
    def other_names(ex, e): return ex.absfun_s("refers_to_names_other_than_count", [z3.StringSort()], z3.BoolSort())(e)
    def m_compile(ex, st, fn, args, kw):
        # A-COMPILE: compile(expr, <name>, 'eval') fails with SyntaxError / ValueError or yields a code object whose co_names are the names the expression refers to
        ex.obligations.append(Obligation("compiles-the-count-expression-as-an-expression", st.pc, z3.BoolVal(len(args) >= 3 and args[2] == "eval"), "post", props=["C09"]))
        for cls in ("SyntaxError", "ValueError"):
            sb = st.copy(); sb.ghost["compile_failed"] = True; yield sb, Raise(ex.new_builtin_exc(sb, cls, ["cannot compile"]))
        names = Ref("NameTuple"); st.heap[names.oid] = {"expr": args[0]}
        code = Ref("code"); st.heap[code.oid] = {"co_names": names}; st.ghost["compiled"] = args[0]
        yield st, code
    def m_validated_expression(ex, st, fn, args, kw):
        # contract of DistinctCountCheck._validated_expression (audited natively: checks.count-expression-audit): the expression itself if it refers only to the count and is built
        # only from numbers, comparisons, arithmetic and boolean operators; an InterfaceError otherwise (that includes text Python cannot parse)
        e = lift(args[0]).z; st.ghost["compiled"] = args[0]
        for s2, b in ex.fork(st, Sym(BOOL, other_names(ex, e))):
            if b: s2.ghost["compile_failed"] = True; yield from raise_new(ex, s2, "InterfaceError")
            else: yield s2, args[0]
    def m_set(ex, st, fn, args, kw):
        if not (len(args) == 1 and isinstance(args[0], Ref) and args[0].cls == "NameTuple"): raise Unsupported("set() of something else than the names of the compiled expression")
        r = Ref("NameSet"); st.heap[r.oid] = {"expr": st.heap[args[0].oid]["expr"], "discarded": []}; yield st, r
    def m_discard(ex, st, recv, args, kw):
        st.heap[recv.oid]["discarded"] = st.heap[recv.oid]["discarded"] + [args[0]]; yield st, None
    def nameset_truth(ex, st, r):
        o = st.heap[r.oid]
        if o["discarded"] != ["count"]: raise Unsupported("the names left are only modelled after discarding exactly 'count'")
        return Sym(BOOL, other_names(ex, lift(o["expr"]).z))
    def m_sorted(ex, st, fn, args, kw): yield st, Opaque()
    def m_hrl(ex, st, fn, args, kw): yield st, fresh(STR, "names_text")[0]
    def expected_expr(st): 
        f = st.ghost["first"].z; r = G(st, "rule"); c = pcol(tend(f)); return z3.Concat(z3.StringVal("count"), z3.SubString(r, c, z3.Length(r) - c))
    def kind0(ex, st, e): return ex.absfun_s("eval_kind", [z3.StringSort(), z3.IntSort()], z3.IntSort())(e, z3.IntVal(0)) == 0
    def c_bound(ex, st):
        g = st.ghost; o = st.heap[g["this"].oid]; f = g["first"].z
        lk = g["lookup"]; d = o.get("_distinct_value_to_count_map")
        static = lk is not None and lk[1] is g["names"] and isinstance(d, (dict, UFDict))
        if not static: return Sym(BOOL, z3.BoolVal(False))
        empty = z3.BoolVal(len(d) == 0) if isinstance(d, dict) else d.size == 0
        return Sym(BOOL, z3.And(ttype(f) == TK.NAME, pline(tend(f)) == 1, lift(o["_field_name_to_count"]).z == ttext(f), lift(lk[0]).z == ttext(f), lift(o["_expression"]).z == expected_expr(st), kind0(ex, st, expected_expr(st)), empty,
                                z3.BoolVal(g.get("compiled") is not None), lift(g["compiled"]).z == expected_expr(st) if g.get("compiled") is not None else z3.BoolVal(False), z3.Not(other_names(ex, expected_expr(st)))))
    def c_refused(ex, st):
        g = st.ghost; f = g["first"].z
        return Sym(BOOL, z3.Or(z3.BoolVal(bool(g["tok_failed"]) or bool(g["lookup_failed"]) or bool(g.get("compile_failed"))), g["names"].length == 0, ttype(f) != TK.NAME, pline(tend(f)) != 1, z3.Not(kind0(ex, st, expected_expr(st))),
                               other_names(ex, expected_expr(st))))
    def make(ctx):
        c = Contract("checks.DistinctCountCheck.__init__", setup,
                returns=[Clause(c_bound, "counts-the-declared-field-named-first-in-the-rule-the-expression-is-'count'-plus-the-rest-of-the-rule-it-refers-to-no-other-name-evaluates-to-a-bool-and-nothing-is-counted-yet", props=["C05", "C09"])],
                raises={"InterfaceError": [Clause(c_refused, "refused-only-for-an-untokenizable-rule-a-rule-not-starting-with-a-declared-field-name-a-rest-naming-anything-else-or-a-rest-that-is-no-boolean-expression", props=["C09", "C05"])]},
                expect=["return", "InterfaceError"], raises_only_props=["C05", "C09", "C10"])
        return {"contract": c, "callees": {"checks.generated_tokens": ModelContract(m_generated_tokens), "_tools.generated_tokens": ModelContract(m_generated_tokens), "ref:TokenIter.__next__": tok_next,
                                           "fields.field_name_index": ModelContract(m_field_name_index), "builtin:eval": m_eval,
                                           "checks.DistinctCountCheck._validated_expression": ModelContract(m_validated_expression)},
                "assumptions": ["A-TOK (first token): a leading NAME token that ends on line 1 ends at column c > 0 with rule[c-len(name):c] == name (audited: checks.A-TOK-first-token)",
                                "A-EVAL: eval(expr, {}, {'count': n}) is an abstract function of (expr, n): a bool, another value or an exception",
                                "DistinctCountCheck._validated_expression is used through its contract: it returns the expression unless refers_to_names_other_than_count(expr) - the uninterpreted predicate 'not a plain expression over the count' (names, calls, lambdas, attributes, text that cannot be parsed); audited natively by checks.count-expression-audit",
                                "fields.field_name_index is used through its verified contract (fields.field_name_index)"]}
    return ProofUnit("checks.DistinctCountCheck.__init__", "DistinctCountCheck.__init__: field to count = leading name of the rule (declared), expression = 'count' + rest, test evaluation, fresh state", ["C05", "C09", "C10"], make, None)


def unit_audit_count_expression():
    """native audit of DistinctCountCheck._validated_expression and the bool test of the constructor: which rules are accepted"""
    def run(ctx):
        from cutplace import checks, errors
        ok = ["kind < 3", "kind<=2", "kind == 0", "kind != 1", "kind >= 2 and count < 5", "kind > 3 or count == 0", "kind + 1 < 5", "kind * 2 <= 10", "kind < 3 and not count > 7", "kind >= 1", "kind < 1e3", "kind < +5", "kind < 5 - 1"]
        bad = ["kind", "kind + 1", "kind < 3 or nosuch > 1", "kind < id", "kind < 3 or (lambda: 1)()", "kind < len('a')", "kind < 3 if count else True", "kind < count.real", "kind < [1][0]", "kind <", "kind < 3;", "kind = 3",
               "kind < 3 or exit()", "kind < 3 or __import__('os')", "kind == 0 or (lambda: exit(4))()", "kind" + " + 1" * 3000 + " > 0", "kind < 'a'", "kind in (1, 2)", "kind is 3", "kind is not 3", "kind not in (1, 2)", "kind < {1: 2}[1]", "kind < (yield)", "kind < (x := 3)", "kind\x00 < 3"]
        def cases():
            for r in ok: yield (r, True)
            for r in bad: yield (r, False)
        def check(c):
            rule, want = c
            try: checks.DistinctCountCheck("d", rule, ["kind", "id"]); got = True
            except errors.InterfaceError: got = False
            except BaseException as e: return {"expected": "accepted or InterfaceError", "observed": "%s: %s" % (type(e).__name__, str(e)[:80])}
            return None if got == want else {"expected": "rule %s" % ("accepted" if want else "refused"), "observed": "accepted" if got else "refused"}
        return [sweep("checks/DistinctCount rules: a comparison of the count built from numbers, arithmetic, and / or / not - nothing else", cases(), check, "audit", "13 rules to accept, 25 to refuse (names, calls, lambdas, attributes, subscripts, conditionals, no comparison, not parseable, thousands of operands)",
                      describe=lambda c: {"rule": c[0][:80]}, function="checks.DistinctCountCheck.__init__ / _validated_expression", unit="checks.count-expression-audit", props=["C09", "C10", "C05"])]
    return NativeUnit("checks.count-expression-audit", "audit of the contract of DistinctCountCheck._validated_expression (what counts as a plain expression over the count)", ["C09", "C10", "C05"], run, kind="audit")


def unit_audit_first_token():
    """audit of the A-TOK clause used by DistinctCountCheck.__init__"""
    def run(ctx):
        import token as TK
        from cutplace import _tools
        names = ["a", "kind", "customer_id", "x1", "_y", "Count", "count"]; rests = ["", " < 3", "<3", "  >=  10", " == 0", "!=1", " < 3 and count > 1", " "]
        def cases():
            for n in names:
                for r in rests: yield n + r
        def check(rule):
            t = next(_tools.generated_tokens(rule))
            ok = t[0] == TK.NAME and t[3][0] == 1 and t[3][1] > 0 and rule[t[3][1] - len(t[1]):t[3][1]] == t[1]
            return None if ok else {"expected": "leading NAME token with end (1, c), rule[c-len:c] == name", "observed": repr(t)}
        return [sweep("A-TOK/first token of a distinct-count rule", cases(), check, "audit", "7 field names x 8 rule tails", function="_tools.generated_tokens", unit="checks.A-TOK-first-token")]
    return NativeUnit("checks.A-TOK-first-token", "audit of the A-TOK clause (first token position) used by DistinctCountCheck.__init__", ["C05", "C09"], run, kind="audit")
