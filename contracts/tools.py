"""_tools: the token filters between tokenize.generate_tokens (axiom A-TOK) and the loops that consume tokens.

tokenize_without_space  yields exactly the tokens of generated_tokens(text) that are not blank (INDENT, or text that
                        strips to nothing) plus the end marker, in order, each once; tokenizer errors become InterfaceError
generated_tokens        the token list minus the synthetic NEWLINE directly before the end marker, in order
token_text              the text of a token, without its quotes for a STRING token
"""
import token as TK
import z3
from .common import *
from vf.unit import ProofUnit
from vf.model import *

TOKEN = Tup(INT, STR)
tks = sort_of(TOKEN); ttype = tks.accessor(0, 0); ttext = tks.accessor(0, 1)
kept = z3.Function("kept_before", z3.IntSort(), z3.IntSort())


def unit_tokenize_without_space():
    def keep(ex, t):
        strip = ex.absfun_s("str_strip", [z3.StringSort()], z3.StringSort())
        return z3.Or(z3.And(ttype(t) != TK.INDENT, strip(ttext(t)) != ""), ttype(t) == TK.ENDMARKER)
    def setup(ex, st):
        T, c = fresh(UFList(TOKEN), "T"); st.pc.extend(c)
        text = fresh(STR, "text")[0]
        st.frames[-1].env.update({"text": text}); st.ghost.update({"T": T, "n_yielded": 0, "tokenizer_failed": False})
        st.pc.append(kept(0) == 0)
        def on_yield(s, v):
            i = lift(s.frames[-1].env["_i0"]).z
            ex.obligations.append(Obligation("the-k-th-yielded-token-is-the-k-th-non-blank-token-of-the-input-in-order", s.pc,
                                             z3.And(lift(v).z == T.at(i), keep(ex, T.at(i)), G(s, "n_yielded") == kept(i)), "post", props=["C01", "C02", "C09"]))
            s.ghost["n_yielded"] = Sym(INT, G(s, "n_yielded") + 1)
        ex.yield_hook = on_yield
    def unfold(ex, st):
        i = lift(st.frames[-1].env.get("_i0", 0)).z; T = st.ghost["T"]
        return [z3.Implies(z3.And(i >= 0, i < T.length), kept(i + 1) == kept(i) + z3.If(keep(ex, T.at(i)), 1, 0))]
    def m_generated(ex, st, fn, args, kw):
        # tokenize may fail on any text (A-TOK says when); both documented error classes
        for cls in ("TokenError", "SyntaxError"):
            sb = st.copy(); sb.ghost["tokenizer_failed"] = True
            yield sb, Raise(ex.new_builtin_exc(sb, cls, ["tokenizer"]))
        yield st, st.ghost["T"]
    def make(ctx):
        c = Contract("_tools.tokenize_without_space", setup,
                returns=[Clause("n_yielded == kept_before(len(T))", "every-non-blank-token-and-the-end-marker-is-yielded", props=["C01", "C02", "C09"]),
                         Clause("not tokenizer_failed", "normal-end-only-when-the-tokenizer-succeeded", props=["C10"])],
                raises={"InterfaceError": [Clause("tokenizer_failed", "InterfaceError-only-for-a-tokenizer-error", props=["C10", "C09"])]},
                loops={0: LoopSpec(invariants=["n_yielded == kept_before(_i0)"], havoc={"toky": TOKEN, "toky_type": INT, "toky_text": STR}, ghost_havoc={"n_yielded": INT}, unfolds=[unfold])},
                expect=["return", "InterfaceError"], n_loops=1, raises_only_props=["C10"])
        return {"contract": c, "callees": {"_tools.generated_tokens": ModelContract(m_generated)},
                "spec_functions": {"kept_before": lambda ex, st, k: Sym(INT, kept(lift(k).z))},
                "assumptions": ["tokenize.TokenError is modelled as a builtin exception class outside the cutplace hierarchy"]}
    return ProofUnit("_tools.tokenize_without_space", "tokenize_without_space: exactly the non-blank tokens and the end marker, in order; tokenizer errors become InterfaceError", ["C01", "C02", "C09", "C10"], make, None)


def unit_token_text():
    def setup(ex, st):
        t = fresh(TOKEN, "toky")[0]
        st.frames[-1].env.update({"toky": t}); st.ghost.update({"ty": Sym(INT, ttype(t.z)), "tx": Sym(STR, ttext(t.z))})
    def make(ctx):
        c = Contract("_tools.token_text", setup,
                returns=[Clause("implies(ty == %d and len(tx) >= 2, result == tx[1:len(tx) - 1])" % TK.STRING, "a-string-token-loses-exactly-its-two-quotes", props=["C01", "C02"]),
                         Clause("implies(ty != %d, result == tx)" % TK.STRING, "any-other-token-keeps-its-text", props=["C01", "C02"])],
                raises={}, expect=["return"], raises_only_props=["C10"])
        return {"contract": c}
    return ProofUnit("_tools.token_text", "token_text: the token's text, a STRING token without its quotes", ["C01", "C02"], make, None)


def unit_generated_tokens():
    def setup(ex, st):
        T, c = fresh(UFList(TOKEN), "T"); st.pc.extend(c)
        text = fresh(STR, "text")[0]
        st.frames[-1].env.update({"text": text}); st.ghost.update({"T": T, "n_yielded": 0})
        n = T.length
        drop = z3.And(n >= 2, ttype(T.at(n - 2)) == TK.NEWLINE, ttext(T.at(n - 2)) == "", z3.Or(ttype(T.at(n - 1)) == TK.ENDMARKER))
        st.ghost["drop"] = Sym(BOOL, drop)
        def on_yield(s, v):
            k = G(s, "n_yielded")
            expected = z3.If(z3.And(drop, k >= n - 2), T.at(k + 1), T.at(k))
            ex.obligations.append(Obligation("the-k-th-yielded-token-is-the-k-th-token-skipping-only-the-synthetic-newline-before-the-end-marker", s.pc,
                                             z3.And(lift(v).z == expected, k == lift(s.frames[-1].env["_i0"]).z), "post", props=["C01", "C02", "C09"]))
            s.ghost["n_yielded"] = Sym(INT, k + 1)
        ex.yield_hook = on_yield
    def m_generate(ex, st, fn, args, kw):
        for cls in ("TokenError", "SyntaxError"):
            sb = st.copy(); yield sb, Raise(ex.new_builtin_exc(sb, cls, ["tokenizer"]))
        yield st, st.ghost["T"]
    def m_iseof(ex, st, fn, args, kw):
        yield st, Sym(BOOL, lift(args[0]).z == TK.ENDMARKER)
    def make(ctx):
        c = Contract("_tools.generated_tokens", setup,
                returns=[Clause("n_yielded == len(T) - (1 if drop else 0)", "all-tokens-are-yielded-minus-the-synthetic-newline", props=["C01", "C02", "C09"])],
                raises={"TokenError": [], "SyntaxError": []},
                loops={0: LoopSpec(invariants=["n_yielded == _i0"], havoc={"result": TOKEN}, ghost_havoc={"n_yielded": INT})},
                expect=["return"], n_loops=1)
        return {"contract": c, "callees": {"builtin:tokenize.generate_tokens": m_generate, "_compat.token_io_readline": ModelContract(lambda ex, st, fn, a, k: iter([(st, Opaque())])),
                                           "builtin:tokenize.ISEOF": m_iseof},
                "assumptions": ["tokenize.ISEOF(t) is t == token.ENDMARKER (stdlib definition)", "list(iterator of tokens) is the sequence of the tokens (A-ITER)"]}
    return ProofUnit("_tools.generated_tokens", "generated_tokens: the tokenizer's tokens in order, minus the synthetic NEWLINE directly before the end marker", ["C01", "C02", "C09"], make, None)


def unit_validated_python_name():
    def setup(ex, st):
        T, c = fresh(UFList(TOKEN), "T"); st.pc.extend(c)
        n = fresh(INT, "n")[0]; st.pc.append(n.z >= 0); st.pc.append(T.length == n.z + 1); st.pc.append(ttype(T.at(n.z)) == TK.ENDMARKER)      # A-TOK: ends in exactly one ENDMARKER
        j = z3.Int("j"); st.pc.append(z3.ForAll([j], z3.Implies(z3.And(0 <= j, j < n.z), ttype(T.at(j)) != TK.ENDMARKER)))
        value = fresh(STR, "value")[0]
        st.frames[-1].env.update({"name": "field type part", "value": value}); st.ghost.update({"T": T, "n": n, "value": value, "tok_failed": False, "started": False})
    def m_generated(ex, st, fn, args, kw):
        strip = ex.absfun_s("str_strip", [z3.StringSort()], z3.StringSort())
        ex.obligations.append(Obligation("tokenizes-the-stripped-value", st.pc, lift(args[0]).z == strip(G(st, "value")), "post", props=["C09"]))
        it = Ref("TokenIter"); st.heap[it.oid] = {"cursor": 0}; yield st, it
    def tok_next(ex, st, recv, args, kw):
        o = st.heap[recv.oid]; T = st.ghost["T"]; c = lift(o["cursor"]).z
        if not st.ghost["started"]:
            for cls in ("TokenError", "SyntaxError"):
                sb = st.copy(); sb.ghost["tok_failed"] = True; yield sb, Raise(ex.new_builtin_exc(sb, cls, ["tokenizer"]))
        st.ghost["started"] = True
        if feasible(st.pc, c >= T.length):
            sb = st.copy(); sb.pc.append(c >= T.length); yield sb, Raise(ex.new_builtin_exc(sb, "StopIteration", []))
        st.pc.append(z3.And(c >= 0, c < T.length)); o["cursor"] = Sym(INT, c + 1)
        yield st, Sym(TOKEN, T.at(c))
    def m_iseof(ex, st, fn, args, kw): yield st, Sym(BOOL, lift(args[0]).z == TK.ENDMARKER)
    def single_name(st):
        T = st.ghost["T"]; n = G(st, "n")
        return z3.And(n >= 1, ttype(T.at(0)) == TK.NAME, z3.Or(n == 1, z3.And(n == 2, ttype(T.at(1)) == TK.NEWLINE, ttext(T.at(1)) == "")))
    def make(ctx):
        c = Contract("_tools.validated_python_name", setup,
                returns=[Clause(lambda ex, st: Sym(BOOL, z3.And(single_name(st), lift(st.ghost["__result__"]).z == ttext(st.ghost["T"].at(0)))), "accepted-only-a-single-NAME-token-(optionally-followed-by-the-synthetic-newline)-and-returns-its-text", props=["C09"])],
                raises={"NameError": [Clause(lambda ex, st: Sym(BOOL, z3.Or(z3.BoolVal(bool(st.ghost["tok_failed"])), z3.Not(single_name(st)))), "refused-only-if-the-value-is-not-one-name", props=["C09"])]},
                expect=["return", "NameError"], raises_only_props=["C09", "C10"])
        return {"contract": c, "callees": {"_tools.generated_tokens": ModelContract(m_generated), "ref:TokenIter.__next__": tok_next, "builtin:tokenize.ISEOF": m_iseof},
                "assumptions": ["A-TOK: generated_tokens(text) delivers a finite token sequence ending in exactly one ENDMARKER, or raises TokenError / SyntaxError at the first next()",
                                "tokenize.ISEOF(t) is t == token.ENDMARKER (stdlib definition)"]}
    return ProofUnit("_tools.validated_python_name", "validated_python_name: exactly one NAME token, returned as is; anything else is a NameError (converted to InterfaceError by add_field_format_row)", ["C09", "C10"], make, None)


def unit_compat_csv():
    """_compat.csv_reader / csv_writer: plain delegation to the csv module with the stream, the dialect and every keyword unchanged"""
    def mk(which):
        def setup(ex, st):
            s = Ref("Stream"); st.heap[s.oid] = {}
            kws = {"delimiter": fresh(STR, "delimiter")[0], "quotechar": fresh(STR, "quotechar")[0], "doublequote": fresh(BOOL, "doublequote")[0], "escapechar": fresh(Opt(STR), "escapechar")[0],
                   "quoting": fresh(INT, "quoting")[0], "skipinitialspace": fresh(BOOL, "skip")[0], "strict": True}
            st.frames[-1].env.update({"source_text_stream" if which == "reader" else "target_text_stream": s, "keywords": kws})
            st.ghost.update({"stream": s, "kws": kws, "called": None})
        def m_csv(ex, st, fn, args, kw):
            st.ghost["called"] = (list(args), dict(kw)); r = Ref("CsvObject"); st.heap[r.oid] = {}; st.ghost["obj"] = r; yield st, r
        def c_delegates(ex, st):
            g = st.ghost; c = g["called"]
            if c is None or st.ghost["__result__"] is not g.get("obj"): return Sym(BOOL, z3.BoolVal(False))
            a, kw = c
            dialect = kw.pop("dialect", None)
            ok = len(a) == 1 and a[0] is g["stream"] and set(kw) == set(g["kws"]) and all(kw[k] is v or (isinstance(v, bool) and kw[k] is v) for k, v in g["kws"].items()) and getattr(dialect, "name", None) in ("csv.excel", "excel")
            return Sym(BOOL, z3.BoolVal(bool(ok)))
        c = Contract("_compat.csv_%s" % which, setup,
                returns=[Clause(c_delegates, "returns-csv.%s(stream,-dialect=csv.excel,-every-keyword-unchanged):-nothing-is-filtered-on-the-way" % which, props=["C12", "C14", "C06"])],
                raises={}, expect=["return"], raises_only_props=["C10"])
        return {"contract": c, "label": which, "callees": {"builtin:csv.%s" % which: m_csv}, "assumptions": ["csv.%s is the standard library's (A-CSV, audited by the round trips)" % which]}
    def make(ctx): return [mk("reader"), mk("writer")]
    return ProofUnit("_compat.csv_reader+writer", "_compat.csv_reader / csv_writer delegate to the csv module with stream, dialect and keywords unchanged", ["C12", "C14", "C06", "C10"], make, None)
