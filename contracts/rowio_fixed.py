"""rowio.fixed_rows: lossless and aligned (C13; error paths for C06/C10). Ghost position e = logical input position, advanced by
ghost code attached (by statement text) after `row.append(item)` and after each delimiter read."""
import io, itertools, z3
from .common import *
from vf.unit import ProofUnit, NativeUnit, Oracle, sweep
from vf.model import *

FIELD = Tup(STR, INT)
SETTINGS = {"none": None, "lf": "\n", "cr": "\r", "crlf": "\r\n", "any": "any"}


def stream_read(ex, st, recv, args, kw):
    """A-ITER: read(n) returns the next min(n, remaining) characters of the text and advances; may raise UnicodeDecodeError (decoding file objects)"""
    o = st.heap[recv.oid]; n = lift(args[0]).z; text = lift(o["text"]).z; pos = lift(o["pos"]).z
    if o.get("may_fail_decoding"):
        fail = fresh(BOOL, "decode_error")[0]
        if feasible(st.pc, fail.z):
            sb = st.copy(); sb.pc.append(fail.z); yield sb, Raise(ex.new_builtin_exc(sb, "UnicodeDecodeError", ["undecodable byte"]))
            sc = st.copy(); sc.pc.append(fail.z); yield sc, Raise(ex.new_builtin_exc(sc, "UnicodeError", ["UTF-16 stream does not start with BOM"]))
        st.pc.append(z3.Not(fail.z))
    r = z3.SubString(text, pos, n)
    v, _ = fresh(STR, "rd"); st.pc.append(v.z == r)
    o["pos"] = Sym(INT, pos + z3.Length(v.z))
    yield st, v
def stream_close(ex, st, recv, args, kw):
    st.heap[recv.oid]["closed"] = True; yield st, None


def make_setup(LD, from_path=False):
    def setup(ex, st):
        fields, c = fresh(UFList(FIELD), "fields"); st.pc.extend(c)
        i = z3.Int("i"); fs = sort_of(FIELD)
        st.pc.append(fields.length >= 1)
        st.pc.append(z3.ForAll([i], z3.Implies(z3.And(i >= 0, i < fields.length), fs.accessor(0, 1)(fields.at(i)) >= 1)))
        text = fresh(STR, "text")[0]
        stream = Ref("Stream"); st.heap[stream.oid] = {"text": text, "pos": 0, "closed": False, "may_fail_decoding": from_path}
        env = st.frames[-1].env
        path = fresh(STR, "path")[0]; st.pc.append(z3.Length(path.z) > 0)      # a path is a non-empty string (programmer-level precondition of Location)
        env.update({"fixed_source": path if from_path else stream, "encoding": "utf-8", "field_name_and_lengths": fields, "line_delimiter": LD})
        st.ghost.update({"text": text, "stream": stream, "e": 0, "fields": fields, "d_start": 0, "rows_yielded": 0, "opened": False})
        def after_append(ex_, s):
            env = s.frames[-1].env; item = lift(unopt(env["item"])).z; w = lift(env["field_length"]).z; e = G(s, "e")
            ex_.obligations.append(Obligation("O1/appended-item-is-the-next-w-characters-of-the-input", s.pc, z3.And(item == z3.SubString(G(s, "text"), e, w), z3.Length(item) == w), "post", props=["C13"]))
            s.ghost["e"] = Sym(INT, e + w)
        ex.stmt_hooks["row.append(item)"] = after_append
        def after_read_delim(ex_, s):
            env = s.frames[-1].env; d = lift(env["actual_line_delimiter"]).z
            s.ghost["d_start"] = s.ghost["e"]; s.ghost["e"] = Sym(INT, G(s, "e") + z3.Length(d))
        ex.stmt_hooks["actual_line_delimiter = fixed_file.read(2)"] = after_read_delim
        ex.stmt_hooks["actual_line_delimiter = fixed_file.read(1)"] = after_read_delim
        def after_lf(ex_, s):
            env = s.frames[-1].env; a = lift(env["anticipated_linefeed"]).z
            s.ghost["e"] = Sym(INT, G(s, "e") + z3.If(a == z3.StringVal("\n"), 1, 0))
        ex.stmt_hooks["anticipated_linefeed = fixed_file.read(1)"] = after_lf
        def before_return_delim(ex_, s):
            d = z3.SubString(G(s, "text"), G(s, "d_start"), G(s, "e") - G(s, "d_start"))
            if LD is None: goal = z3.BoolVal(True)
            elif LD == "any": goal = z3.Or(d == "", d == "\n", d == "\r", d == "\r\n")
            else: goal = z3.Or(d == "", d == LD)
            ex_.obligations.append(Obligation("O2/what-was-consumed-between-rows-is-a-permitted-delimiter", s.pc, goal, "post", props=["C13"]))
            res = s.frames[-1].env["result"]
            ex_.obligations.append(Obligation("O2b/end-of-data-reported-only-at-end-of-input", s.pc, z3.Implies(z3.Not(lift(res).z) if isinstance(res, Sym) else z3.BoolVal(not res), G(s, "e") >= z3.Length(G(s, "text"))), "post", props=["C13"]))
        ex.stmt_hooks_before["return result"] = before_return_delim
        def on_yield(s, v):
            n = s.ghost["fields"].length
            j = z3.Int("j!y"); fs_ = sort_of(FIELD)
            ex.obligations.append(Obligation("P1/yielded-row-has-every-field-at-exactly-its-width", s.pc,
                z3.And(v.length == n, z3.ForAll([j], z3.Implies(z3.And(j >= 0, j < n), z3.Length(v.at(j)) == fs_.accessor(0, 1)(s.ghost["fields"].at(j))))), "post", props=["C13", "C04"]))
            s.ghost["rows_yielded"] = Sym(INT, G(s, "rows_yielded") + 1)
        ex.yield_hook = on_yield
    return setup


def m_io_open(ex, st, fn, args, kw):
    """io.open(path, 'r', encoding=..., newline=...): OSError or a stream over the file's characters"""
    ex.obligations.append(Obligation("O0/file-opened-without-newline-translation", st.pc, z3.BoolVal(kw.get("newline") == ""), "post", props=["C13"]))
    if True:
        sb = st.copy(); yield sb, Raise(ex.new_builtin_exc(sb, "OSError", ["cannot open"]))
    st.ghost["opened"] = True
    yield st, st.ghost["stream"]


def sf_rowlen_ok(ex, st, row, k):
    j = z3.Int("j!r")
    if isinstance(row, list): return Sym(BOOL, z3.And(z3.BoolVal(len(row) == 0), lift(k).z == 0))
    return Sym(BOOL, z3.And(row.length == lift(k).z, z3.ForAll([j], z3.Implies(z3.And(j >= 0, j < lift(k).z), z3.Length(row.at(j)) == sort_of(FIELD).accessor(0, 1)(st.ghost["fields"].at(j))))))
def sf_unread_ok(ex, st, cell):
    u = cell[0]; text = G(st, "text"); e = G(st, "e"); pos = lift(st.heap[st.ghost["stream"].oid]["pos"]).z
    if u is None: return Sym(BOOL, pos == e)
    if u.ty.kind == "str": return Sym(BOOL, z3.And(pos == e + 1, e < z3.Length(text), u.z == z3.SubString(text, e, 1)))
    so = sort_of(Opt(STR))
    return Sym(BOOL, z3.If(so.is_none(u.z), pos == e, z3.And(pos == e + 1, e < z3.Length(text), so.val(u.z) == z3.SubString(text, e, 1))))
def sf_closed_if_opened(ex, st):
    return Sym(BOOL, z3.BoolVal((not st.ghost["opened"]) or st.heap[st.ghost["stream"].oid]["closed"] is True))

POS_INV = ["0 <= e", "unread_ok(unread_character_after_line_delimiter)"]


def fixed_rows_contract(LD, from_path=False):
    return Contract("rowio.fixed_rows", make_setup(LD, from_path),
        returns=[Clause("e >= len(text)", "O4/generator-ends-only-at-end-of-input", props=["C13"]),
                 Clause("closed_if_opened()", "file-opened-by-the-reader-is-closed", props=["C13", "C06"])],
        raises={"DataFormatError": [Clause("closed_if_opened()", "file-opened-by-the-reader-is-closed", props=["C13", "C06"])]} | ({"OSError": []} if from_path else {}),
        loops={
            0: LoopSpec(invariants=[], havoc={"name": STR, "length": INT}),
            1: LoopSpec(invariants=POS_INV + ["implies(not has_data, e >= len(text))"],
                        havoc={"has_data": BOOL, "field_index": INT, "row": UFList(STR), "unread_character_after_line_delimiter[0]": Opt(STR), "stream.pos": INT,
                               "location._line": INT, "location._column": INT, "location._cell": INT, "item": STR, "item_length": INT, "field_name": STR, "field_length": INT},
                        ghost_havoc={"e": INT, "d_start": INT, "rows_yielded": INT}),
            2: LoopSpec(invariants=POS_INV + ["implies(has_data, rowlen_ok(row, _i2) and field_index == _i2)", "implies(not has_data, rowlen_ok(row, 0) and e >= len(text))", "implies(_i2 > 0, unread_character_after_line_delimiter[0] is None)"],
                        havoc={"has_data": BOOL, "field_index": INT, "row": UFList(STR), "unread_character_after_line_delimiter[0]": Opt(STR), "stream.pos": INT,
                               "location._column": INT, "item": STR, "item_length": INT, "field_name": STR, "field_length": INT},
                        ghost_havoc={"e": INT}),
        }, expect=["return", "DataFormatError"], n_loops=3, raises_only_props=["C13", "C06", "C10"])


def fixed_callees():
    return {"ref:Stream.read": stream_read, "ref:Stream.close": stream_close, "_tools.human_readable_list": ModelContract(m_opaque_str), "builtin:io.open": m_io_open}


SPECF = {"rowlen_ok": sf_rowlen_ok, "unread_ok": sf_unread_ok, "closed_if_opened": sf_closed_if_opened}


# ---- native side: independent reference reader for the completeness / soundness sweep
def reference_fixed(text, widths, ld):
    """returns list of rows or 'error' -- an independent formulation of the fixed-width language"""
    pos = 0; rows = []; n = len(text); total = sum(widths)
    while pos < n:
        if n - pos < total: return "error"
        row = []
        for w in widths:
            row.append(text[pos:pos + w]); pos += w
        rows.append(row)
        if ld is None: continue
        if pos == n: break
        if ld == "any":
            if text.startswith("\r\n", pos): pos += 2
            elif text[pos] in "\r\n": pos += 1
            else: return "error"
        else:
            if text.startswith(ld, pos): pos += len(ld)
            else: return "error"
    return rows


class FixedOracle(Oracle):
    quick_cases = 60000
    thorough_cases = 10**9
    bound = "all strings up to length 6 (quick) / 8 (thorough) over {a, b, CR, LF} x width lists of 1-2 fields of width 1-2 (quick) / 1-3 fields of width 1-3 (thorough) x 5 delimiter settings"
    def cases(self, ctx):
        # files read from a path (bytes on disk, incl. CR / CRLF delimiters and an undecodable byte)
        for data, ld in ((b"ab\r\ncd\r\n", "\r\n"), (b"ab\rcd\r", "\r"), (b"ab\ncd", "\n"), (b"ab\r\ncd\rxy\nzz", "any"), (b"abcd", None), (b"ab\ncd\xff", "\n"), (b"\xff", "any")):
            yield ("PATH", data, [2], ld)
        maxlen = 8 if ctx.thorough else 6
        wl = [list(w) for k in ((1, 2, 3) if ctx.thorough else (1, 2)) for w in itertools.product((1, 2, 3) if ctx.thorough else (1, 2), repeat=k)]
        for n in range(0, maxlen + 1):
            for chars in itertools.product("ab\r\n", repeat=n):
                t = "".join(chars)
                for widths in wl:
                    for name, ld in SETTINGS.items():
                        yield (t, widths, ld)
    def check(self, case):
        from cutplace import rowio, errors
        if case[0] == "PATH":
            import tempfile, os
            _, data, widths, ld = case
            d = tempfile.mkdtemp(prefix="vf_fixed_"); p = os.path.join(d, "data.txt")
            try:
                with open(p, "wb") as f: f.write(data)
                try: text = data.decode("utf-8"); exp = reference_fixed(text, widths, ld)
                except UnicodeDecodeError: exp = "error"
                try: got = list(rowio.fixed_rows(p, "utf-8", [("f%d" % i, w) for i, w in enumerate(widths)], ld))
                except errors.DataFormatError: got = "error"
                except Exception as e: return {"expected": exp, "observed": repr(e)}
                return None if got == exp else {"expected": exp, "observed": got}
            finally:
                import shutil; shutil.rmtree(d, ignore_errors=True)
        text, widths, ld = case
        exp = reference_fixed(text, widths, ld)
        try:
            got = list(rowio.fixed_rows(io.StringIO(text), "utf-8", [("f%d" % i, w) for i, w in enumerate(widths)], ld))
        except errors.DataFormatError:
            got = "error"
        except Exception as e:
            return {"expected": exp, "observed": repr(e)}
        return None if got == exp else {"expected": exp, "observed": got}
    def describe(self, c):
        if c[0] == "PATH": return {"file_bytes": repr(c[1]), "widths": c[2], "line_delimiter": c[3], "call": "rowio.fixed_rows(path_of_file, 'utf-8', fields, line_delimiter)"}
        return {"text": c[0], "widths": c[1], "line_delimiter": c[2], "call": "rowio.fixed_rows(io.StringIO(text), 'utf-8', fields, line_delimiter)"}


def unit_fixed_rows():
    def make(ctx):
        out = []
        for name, LD in SETTINGS.items():
            out.append({"contract": fixed_rows_contract(LD), "callees": fixed_callees(), "spec_functions": SPECF, "label": "line delimiter " + name,
                        "assumptions": ["A-ITER: file.read(n) returns the next min(n, remaining) characters; a text stream handed in by the caller does not raise; a file opened from a path may raise UnicodeDecodeError on any read",
                                        "soundness is proved (every appended item is the next w characters, only permitted delimiters are consumed, rows are complete, the end is reported only at end of input); completeness is the bounded sweep"]})
        out.append({"contract": fixed_rows_contract("any", from_path=True), "callees": fixed_callees(), "spec_functions": SPECF, "label": "from a path, any"})
        out.append({"contract": fixed_rows_contract("\r\n", from_path=True), "callees": fixed_callees(), "spec_functions": SPECF, "label": "from a path, crlf"})
        return out
    return ProofUnit("rowio.fixed_rows", "fixed_rows: lossless and aligned for all streams, width lists and the five delimiter settings (ghost position accounting)", ["C13", "C06", "C10", "C04"], make, FixedOracle(), timeout=1500)
