"""DecimalRange.__init__ at token level (C01; precision/scale used by C19). Same structure as ranges_init:
kinds 0 none, 1 number, 2 -number; 10 well-formed shapes of the current item; other items symbolic."""
import token as TK
import z3
from .common import *
from vf.unit import ProofUnit
from .tokens import DecimalTextOracle

TOKEN = Tup(INT, STR); DITEM = Tup(Opt(DEC), Opt(DEC))
tks = sort_of(TOKEN); ttype = tks.accessor(0, 0); ttext = tks.accessor(0, 1)
its = sort_of(DITEM); OD = sort_of(Opt(DEC)); DS = sort_of(DEC)
lo_kind = z3.Function("dlo_kind", z3.IntSort(), z3.IntSort()); hi_kind = z3.Function("dhi_kind", z3.IntSort(), z3.IntSort())
has_ell = z3.Function("dhas_ell", z3.IntSort(), z3.BoolSort()); lo_val = z3.Function("dlo_val", z3.IntSort(), z3.RealSort()); hi_val = z3.Function("dhi_val", z3.IntSort(), z3.RealSort())
start = z3.Function("dstart", z3.IntSort(), z3.IntSort())
MA = z3.Function("max_after", z3.IntSort(), z3.IntSort())     # max digits after the dot over NUMBER tokens T[0:p]
MB = z3.Function("max_before", z3.IntSort(), z3.IntSort())    # max digits before the dot over NUMBER tokens T[0:p]

SHAPES = [(lo, ell, hi) for lo in range(3) for ell in (0, 1) for hi in range(3) if (lo != 0 or hi != 0) and (hi == 0 or ell == 1)]


def D(v): return DS.mkdec(v, z3.BoolVal(True))
def den_lo(k): return z3.If(lo_kind(k) != 0, OD.some(D(lo_val(k))), OD.none)
def den_hi(k): return z3.If(has_ell(k), z3.If(hi_kind(k) != 0, OD.some(D(hi_val(k))), OD.none), den_lo(k))
def den(k): return its.mk(den_lo(k), den_hi(k))


def fns(ex):
    return (ex.absfun_s("dec_parses", [z3.StringSort()], z3.BoolSort()), ex.absfun_s("dec_of", [z3.StringSort()], DS),
            ex.absfun_s("dec_ndigits", [DS], z3.IntSort()), ex.absfun_s("dec_exponent", [DS], z3.IntSort()))


def after_of(ex, text):
    _, dof, nd, de = fns(ex); e = de(dof(text)); return z3.If(-e > 0, -e, 0)
def before_of(ex, text):
    _, dof, nd, de = fns(ex); return nd(dof(text)) + de(dof(text))


def limit_token(ex, T, p, kind, v):
    t = T.at(p); text = ttext(t); parses, dof, nd, de = fns(ex)
    return z3.And(ttype(t) == TK.NUMBER, parses(text), DS.dfin(dof(text)), DS.dval(dof(text)) >= 0,
                  z3.If(kind == 2, v == -DS.dval(dof(text)), v == DS.dval(dof(text))))


def item_layout(ex, T, n, k):
    p0 = start(k); b = lambda c: z3.If(c, 1, 0)
    p1 = p0 + b(lo_kind(k) == 2); p2 = p1 + b(lo_kind(k) != 0); p3 = p2 + b(has_ell(k)); p4 = p3 + b(hi_kind(k) == 2); p5 = p4 + b(hi_kind(k) != 0)
    hyphen = lambda p: z3.And(ttype(T.at(p)) == TK.OP, ttext(T.at(p)) == "-")
    ell = lambda p: z3.Or(z3.And(ttype(T.at(p)) == TK.OP, ttext(T.at(p)) == ":"), z3.And(ttype(T.at(p)) == TK.ERRORTOKEN, ttext(T.at(p)) == "…"))
    term = z3.If(k < n - 1, z3.And(ttype(T.at(p5)) == TK.OP, ttext(T.at(p5)) == ","), z3.And(ttype(T.at(p5)) == TK.ENDMARKER, ttext(T.at(p5)) == ""))
    wf = z3.And(lo_kind(k) >= 0, lo_kind(k) <= 2, hi_kind(k) >= 0, hi_kind(k) <= 2, z3.Or(lo_kind(k) != 0, hi_kind(k) != 0), z3.Implies(hi_kind(k) != 0, has_ell(k)),
                z3.Implies(z3.And(lo_kind(k) != 0, hi_kind(k) != 0), lo_val(k) <= hi_val(k)))
    return z3.And(wf, z3.Implies(lo_kind(k) == 2, hyphen(p0)), z3.Implies(lo_kind(k) != 0, limit_token(ex, T, p1, lo_kind(k), lo_val(k))),
                  z3.Implies(has_ell(k), ell(p2)), z3.Implies(hi_kind(k) == 2, hyphen(p3)), z3.Implies(hi_kind(k) != 0, limit_token(ex, T, p4, hi_kind(k), hi_val(k))),
                  term, start(k + 1) == p5 + 1)


def disjoint(j, k):
    a_lo_none = lo_kind(j) == 0; a_hi_none = z3.And(has_ell(j), hi_kind(j) == 0)
    b_lo_none = lo_kind(k) == 0; b_hi_none = z3.And(has_ell(k), hi_kind(k) == 0)
    a_hi = z3.If(has_ell(j), hi_val(j), lo_val(j)); b_hi = z3.If(has_ell(k), hi_val(k), lo_val(k))
    return z3.Or(z3.And(z3.Not(a_hi_none), z3.Not(b_lo_none), a_hi < lo_val(k)), z3.And(z3.Not(b_hi_none), z3.Not(a_lo_none), b_hi < lo_val(j)))


def m_tokenize(ex, st, fn, args, kw):
    it = Ref("TokenIter"); st.heap[it.oid] = {"cursor": 0}; st.ghost["iter"] = it; yield st, it


def tok_next(ex, st, recv, args, kw):
    o = st.heap[recv.oid]; T = st.ghost["T"]; c = lift(o["cursor"]).z
    if feasible(st.pc, c >= T.length):
        sb = st.copy(); sb.pc.append(c >= T.length); yield sb, Raise(ex.new_builtin_exc(sb, "StopIteration", []))
    st.pc.append(z3.And(c >= 0, c < T.length)); o["cursor"] = Sym(INT, c + 1)
    yield st, Sym(TOKEN, T.at(c))


def setup(ex, st):
    T, c = fresh(UFList(TOKEN), "T"); st.pc.extend(c)
    n = fresh(INT, "n")[0]; st.pc.append(n.z >= 1); st.pc.append(start(0) == 0); st.pc.append(T.length == start(n.z))
    k = z3.Int("k")
    st.pc.append(z3.ForAll([k], z3.Implies(z3.And(k >= 0, k < n.z), z3.And(start(k + 1) > start(k), start(k + 1) <= start(n.z)))))
    st.ghost["layout"] = lambda kk: item_layout(ex, T, n.z, kk)
    wf = lambda k: z3.And(lo_kind(k) >= 0, lo_kind(k) <= 2, hi_kind(k) >= 0, hi_kind(k) <= 2, z3.Or(lo_kind(k) != 0, hi_kind(k) != 0), z3.Implies(hi_kind(k) != 0, has_ell(k)))
    st.pc.append(z3.ForAll([k], z3.Implies(z3.And(k >= 0, k < n.z), wf(k))))
    st.pc.append(MA(0) == 0); st.pc.append(MB(0) == 0)
    desc = fresh(STR, "description")[0]
    strip = ex.absfun_s("str_strip", [z3.StringSort()], z3.StringSort()); st.pc.append(strip(desc.z) != "")
    self = Ref("DecimalRange"); st.heap[self.oid] = {}
    st.frames[-1].env.update({"self": self, "description": desc, "default": None, "location": None})
    st.ghost.update({"T": T, "n": n, "this": self})
    ex.attr_types = {"_items": UFList(DITEM)}


def unfolds_for(shape):
    def unfold_item(ex, st):
        items = st.heap[st.ghost["this"].oid].get("_items")
        if not isinstance(items, UFL): return []
        k0 = items.length; n = G(st, "n"); T = st.ghost["T"]
        out = [z3.Implies(z3.And(k0 >= 0, k0 < n), st.ghost["layout"](k0))]
        out.append(z3.Implies(k0 < n, z3.And(lo_kind(k0) == shape[0], has_ell(k0) == bool(shape[1]), hi_kind(k0) == shape[2])))
        # running maxima of digits: ground unfolding at the (at most 6) token positions of the current item
        mx = lambda a, b_: z3.If(a >= b_, a, b_)
        for d in range(6):
            p = start(k0) + d
            isnum = ttype(T.at(p)) == TK.NUMBER
            out.append(z3.Implies(z3.And(k0 >= 0, k0 < n, p < T.length),
                                  z3.And(MA(p + 1) == z3.If(isnum, mx(MA(p), after_of(ex, ttext(T.at(p)))), MA(p)),
                                         MB(p + 1) == z3.If(isnum, mx(MB(p), before_of(ex, ttext(T.at(p)))), MB(p)))))
        return out
    def unfold_disjoint(ex, st):
        items = st.heap[st.ghost["this"].oid].get("_items"); env = st.frames[-1].env
        j = lift(env.get("_i2", 0)).z; k0 = items.length
        return [z3.Implies(z3.And(0 <= j, j < k0), disjoint(j, k0)), z3.Implies(z3.And(0 <= j - 1, j - 1 < k0), disjoint(j - 1, k0))]
    return unfold_item, unfold_disjoint


def sf_den(ex, st, k): return Sym(DITEM, den(lift(k).z))
def sf_start(ex, st, k): return Sym(INT, start(lift(k).z))
def sf_cursor(ex, st): return st.heap[st.ghost["iter"].oid]["cursor"]
def sf_MA(ex, st, p): return Sym(INT, MA(lift(p).z))
def sf_MB(ex, st, p): return Sym(INT, MB(lift(p).z))
def sf_nonneg_digits(ex, st):
    """A-DEC: for a finite decimal parsed from a NUMBER token, ndigits >= 1 and ndigits + exponent may be any integer; nothing else assumed"""
    return Sym(BOOL, z3.BoolVal(True))


def _limit_ok(which):
    def f(ex, st, lim, upto):
        items = st.heap[st.ghost["this"].oid]["_items"]; u = lift(upto).z; l = lift_to(Opt(DEC), lim)
        j = z3.Int("j!l" + which); acc = its.accessor(0, 0 if which == "lo" else 1); x = lambda i: acc(items.at(i))
        some_open = z3.Exists([j], z3.And(0 <= j, j < u, OD.is_none(x(j))))
        cmp = (lambda a, b_: a >= b_) if which == "lo" else (lambda a, b_: a <= b_)
        bound = z3.ForAll([j], z3.Implies(z3.And(0 <= j, j < u), z3.And(z3.Not(OD.is_none(x(j))), cmp(DS.dval(OD.val(x(j))), DS.dval(OD.val(l))))))
        attained = z3.Exists([j], z3.And(0 <= j, j < u, x(j) == l))
        return Sym(BOOL, z3.If(u == 0, OD.is_none(l), z3.If(some_open, OD.is_none(l), z3.And(z3.Not(OD.is_none(l)), bound, attained))))
    return f


def sf_all_finite(ex, st, upto):
    items = st.heap[st.ghost["this"].oid]["_items"]; u = lift(upto).z; j = z3.Int("j!af")
    lo = its.accessor(0, 0)(items.at(j)); hi = its.accessor(0, 1)(items.at(j))
    return Sym(BOOL, z3.ForAll([j], z3.Implies(z3.And(0 <= j, j < u), z3.And(z3.Or(OD.is_none(lo), DS.dfin(OD.val(lo))), z3.Or(OD.is_none(hi), DS.dfin(OD.val(hi)))))))


def init_contract(shape):
    unfold_item, unfold_disjoint = unfolds_for(shape)
    return Contract("ranges.DecimalRange.__init__", setup,
        returns=[Clause("len(this._items) == n", "one-item-per-description-item"),
                 Clause("forall(j, 0 <= j and j < n, this._items[j] == den(j))", "items-are-the-denotations"),
                 Clause("lower_limit_ok(this._lower_limit, n)", "lower-limit-is-minimum-or-absent"),
                 Clause("upper_limit_ok(this._upper_limit, n)", "upper-limit-is-maximum-or-absent"),
                 Clause("this._precision == MA(start(n)) and this._scale == MB(start(n)) + MA(start(n))", "precision-and-scale-are-the-running-maxima-of-the-numerals", props=["C19", "C01"])],
        raises={},
        loops={
            0: LoopSpec(invariants=["0 <= len(this._items) and len(this._items) <= n", "cursor() == start(len(this._items))",
                                    "forall(j, 0 <= j and j < len(this._items), this._items[j] == den(j))", "iff(end_reached, len(this._items) == n)",
                                    "max_digits_after_dot == MA(cursor()) and max_digits_before_dot == MB(cursor())", "MA(cursor()) >= 0 and MB(cursor()) >= 0",
                                    "implies(len(this._items) > 0, this._precision == MA(cursor()) and this._scale == MB(cursor()) + MA(cursor()))"],
                        havoc={"this._items": UFList(DITEM), "iter.cursor": INT, "end_reached": BOOL, "lower": Opt(DEC), "upper": Opt(DEC), "ellipsis_found": BOOL, "after_hyphen": BOOL,
                               "next_token": TOKEN, "next_type": INT, "next_value": STR, "decimal_value": DEC, "range_item": DITEM, "item": DITEM,
                               "max_digits_after_dot": INT, "max_digits_before_dot": INT, "this._precision": INT, "this._scale": INT,
                               "digits_after_dot": INT, "digits_before_dot": INT, "exponent": INT, "_": INT, "digits": UFList(INT)}, unfolds=[unfold_item]),
            1: Unroll(6),
            2: LoopSpec(invariants=[], havoc={"item": DITEM}, unfolds=[unfold_disjoint]),
            3: LoopSpec(invariants=["implies(_i3 == 0, is_first_item)", "implies(_i3 > 0, not is_first_item)", "all_finite(n)",
                                    "implies(_i3 > 0, lower_limit_ok(this._lower_limit, _i3) and upper_limit_ok(this._upper_limit, _i3))"],
                        havoc={"this._lower_limit": Opt(DEC), "this._upper_limit": Opt(DEC), "is_first_item": BOOL, "lower_item": Opt(DEC), "upper_item": Opt(DEC)}),
        }, expect=["return"], n_loops=4)


def _m_tokdesc(ex, st, fn, args, kw):
    yield st, fresh(STR, "tokdesc")[0]


def units_decimal_range_init():
    out = []
    A = ["A-TOK (as for Range.__init__)", "A-DEC: decimal.Decimal(text) of a NUMBER token of the grammar is a finite non-negative decimal; as_tuple() yields an abstract digit tuple (length dec_ndigits >= 1) and exponent",
         "DecimalRange.__init__: digits-before-dot of a numeral is len(digits) + exponent as computed by the code (the definition C19 relies on)"]
    for shape in SHAPES:
        def make(ctx, shape=shape):
            return {"contract": init_contract(shape), "label": "shape lo=%d ell=%d hi=%d" % shape, "assumptions": A,
                    "callees": {"_tools.tokenize_without_space": ModelContract(m_tokenize), "ref:TokenIter.__next__": tok_next, "ranges._tokenizable_description": ModelContract(_m_tokdesc)},
                    "spec_functions": {"den": sf_den, "start": sf_start, "cursor": sf_cursor, "MA": sf_MA, "MB": sf_MB, "lower_limit_ok": _limit_ok("lo"), "upper_limit_ok": _limit_ok("hi"), "all_finite": sf_all_finite}}
        out.append(ProofUnit("ranges.DecimalRange.__init__/%d%d%d" % shape, "DecimalRange.__init__ token loop, current item of shape (%d,%d,%d)" % shape, ["C01", "C19"], make, DecimalTextOracle(), xcheck=False, weight=4, timeout=1200))
    return out
