"""C10: bounded hostile-pool replays (one cell at a time over valid base CIDs and data; containers truncated / bit-flipped). The deductive share of C10 is
the raises-only obligation of every function under contract (collected in props/C10.py)."""
import io, itertools, os
from vf import findings
from vf.unit import NativeUnit, sweep
from vf.model import *

POOL = ["", " ", "'", '"', "'''", "((", "))", "1...", "...", "5...1", "-", "--1", "1 2", "x y", "1114112", "99999999999999999999", "-1", "1.5", "NaN", "sNaN", "Infinity", "-inf", "é", "９", "１２", "\x00", "a\nb", " x\n  y\n z",
        "u'a'", "b'a'", "'\\N{DASH}'", "'\\U00110000'", "*", "[", "(?P<", "0", "0x", "tab", "lf", "none", "any", "\\", "%", "%d", "{0}", "DD.MM.YYYY", "count > ", "a,", ",a", "a,,b", "== 1", "x" * 300, "1E+400", "+5", " 7 ",
        "31.02.2020", "00.00.0000", "٣", "1,5", "1.000,5", "1..5", "１.５", "is valid", "format", "__class__", "None", "True",
        # audit round: layouts repeating a placeholder, no-break / ideographic blanks next to a name, a carriage return before a non-ASCII character, indented second line
        "DD.MM.DD", "hh:mm:mm", "YYYY-YYYY", "\xa0id", "id\xa0", "\u3000id", "id,\xa0name", "\xa0kind < 3", "id\r\u00e4", "1...\r\u00e4", "  1\n 2", " id", " kind < 3", "kind < 3 or nosuch > 1", "kind < 3 and exit()",
        "kind < 3 or (lambda: exit(4))()", "kind" + " + 1" * 3000 + " > 0", "kind", "kind < 5 / (count - 1)",
        "(?a)(?u)x", "x{99999999999}", "(" * 500 + "a" + ")" * 500, "\\\n kind < 3", "\\\nid",
        # fourth audit round: numbers no message can print in decimal (str() of an int of more than 4300 digits raises ValueError)
        "kind + 10**5000", "kind == 0 or kind + 10**5000", "0...0x" + "f" * 3600, "32...0x" + "f" * 3600, "0x" + "f" * 3600 + "...", "0o" + "7" * 5000]
BAD_CELLS = ["-1", "\x01", "z" * 12]
GOOD_ROWS = {"delimited": ["1", "abc", "a", "1.5", "31.12.2020", "ab1", "a1", "k"], "fixed": ["12345", "abc", "        "], "excel": ["1", ""], "ods": ["1.5"]}

BASE_CIDS = {
    "delimited": [["d", "format", "delimited"], ["d", "header", "1"], ["d", "item delimiter", ";"], ["d", "allowed characters", "32...126"], ["d", "encoding", "utf-8"], ["d", "line delimiter", "lf"], ["d", "quote character", '"'],
                  ["d", "escape character", "\\"], ["d", "decimal separator", "."], ["d", "thousands separator", ","], ["d", "quoting", "all"], ["d", "skip initial space", "true"],
                  ["f", "id", "1", "", "1...5", "Integer", "0...99999"], ["f", "name", "abc", "x", "...10", "Text", ""], ["f", "kind", "a", "", "", "Choice", "a,b"], ["f", "amount", "1.5", "", "", "Decimal", "0...100"],
                  ["f", "born", "31.12.2020", "", "10", "DateTime", "DD.MM.YYYY"], ["f", "code", "ab1", "", "", "Pattern", "a?*"], ["f", "rx", "a1", "", "", "RegEx", "a[0-9]"], ["f", "const", "k", "", "", "Constant", "k"],
                  ["c", "id unique", "IsUnique", "id"], ["c", "kinds", "DistinctCount", "kind < 3"]],
    "fixed": [["d", "format", "fixed"], ["d", "line delimiter", "any"], ["f", "id", "12345", "", "5", "Integer", ""], ["f", "name", "abc", "x", "3", "Text", ""], ["f", "amount", "", "x", "8", "Decimal", ""], ["c", "u", "IsUnique", "id, name"]],
    "excel": [["d", "format", "excel"], ["d", "sheet", "1"], ["f", "id", "1", "", "", "Integer", ""], ["f", "amount", "", "x", "", "Decimal", ""]],
    "ods": [["d", "format", "ods"], ["d", "sheet", "2"], ["f", "amount", "1.5", "", "", "Decimal", ""]],
}


def unit_hostile_cid():
    def run(ctx):
        from cutplace import interface, errors, validio
        known = findings.is_known("K-6a", "C10")
        escapes_known = []
        def cases():
            for bname, base in BASE_CIDS.items():
                for ri, row in enumerate(base):
                    for ci in range(len(row)):
                        for v in POOL: yield (bname, ri, ci, v)
            if ctx.thorough:       # pairwise: two hostile cells in the same CID
                import random
                rng = random.Random(ctx.seed)
                for _ in range(20000):
                    bname = rng.choice(list(BASE_CIDS)); base = BASE_CIDS[bname]
                    r1, r2 = rng.randrange(len(base)), rng.randrange(len(base))
                    yield (bname, r1, rng.randrange(len(base[r1])), rng.choice(POOL), r2, rng.randrange(len(base[r2])), rng.choice(POOL))
        def check(c):
            rows = [list(r) for r in BASE_CIDS[c[0]]]
            rows[c[1]][c[2]] = c[3]
            if len(c) > 4: rows[c[4]][c[5]] = c[6]
            try:
                cid = interface.Cid(); cid.read("cid", rows)
                # a CID that loads is then used: one conforming row (of the unchanged base CID) is validated and the run closed
                # ... and then rows that differ from it in one cell (a value below every range, a control character, a long text), so that
                # the messages about rejected values are built, too
                good = list(GOOD_ROWS[c[0]])
                class R(validio.Reader):
                    def _raw_rows(self):
                        yield list(good)
                        for i in range(len(good)):
                            for v in BAD_CELLS: yield good[:i] + [v] + good[i + 1:]
                try:
                    with R(cid, io.StringIO(""), on_error="continue") as r:
                        for _ in r.rows(): pass
                except errors.DataError: pass
            except errors.InterfaceError: return None
            except OverflowError as e:
                # K-6a is the *length* cell of an Integer field row holding an absurdly large number; an OverflowError from any other cell is a violation
                def is_k6a(ri, ci, v): return v == "99999999999999999999" and rows[ri][0] == "f" and ci == 4 and len(rows[ri]) > 5 and rows[ri][5] == "Integer"
                if known and (is_k6a(c[1], c[2], c[3]) or (len(c) > 4 and is_k6a(c[4], c[5], c[6]))): escapes_known.append(c); return None
                return {"expected": "accepted or InterfaceError", "observed": "%s: %s" % (type(e).__name__, e)}
            except (Exception, SystemExit) as e: return {"expected": "accepted or InterfaceError", "observed": "%s: %s" % (type(e).__name__, str(e)[:120])}
            return None
        r = sweep("C10/hostile/every cell of every CID row kind filled from the hostile pool", cases(), check, "bounded",
                  "4 base CIDs (all formats, all field types, both checks) x every cell of every row x %d hostile values, one cell at a time (thorough: 20000 random pairs); a CID that loads then validates one row and closes the run" % len(POOL),
                  describe=lambda c: {"cid": c[0], "row": c[1] + 1, "cell": c[2] + 1, "value": c[3]} if len(c) == 4 else {"cid": c[0], "cells": [(c[1] + 1, c[2] + 1, c[3]), (c[4] + 1, c[5] + 1, c[6])]},
                  function="interface.Cid.read + validio.Reader", unit="C10.hostile.cid", props=["C10"])
        res = [r]
        # numbers beyond a C int in the cells that denote one character (chr() raises OverflowError there, not ValueError); kept out of the general
        # pool because the same numbers as an Integer *length* make create_range_from_length allocate gigabytes (the K-6a family)
        def char_cases():
            for ri, row in enumerate(BASE_CIDS["delimited"]):
                if row[0] == "d" and row[1] in ("item delimiter", "quote character", "escape character", "decimal separator", "thousands separator"):
                    for v in ("2147483648", "4294967296", "99999999999", "-2147483649", "0x100000000"): yield ("delimited", ri, 2, v)
        res.append(sweep("C10/hostile/character-valued properties given as numbers beyond a C int", char_cases(), check, "bounded", "5 character properties x 5 numbers outside the C int range",
                         describe=lambda c: {"cid": c[0], "row": c[1] + 1, "cell": c[2] + 1, "value": c[3]}, function="interface.Cid.read", unit="C10.hostile.cid", props=["C10"]))
        if escapes_known:
            res.append(Result("C10/K-6a witness: an absurdly large Integer length makes create_range_from_length raise OverflowError", "bounded", FAILED, "native", finding="K-6a", cases=len(escapes_known), props=["C10"],
                              detail=repr(escapes_known[0]), replay={"verdict": "confirmed", "input": repr(escapes_known[0]), "expected": "InterfaceError", "observed": "OverflowError"}))
        return res
    return NativeUnit("C10.hostile.cid", "bounded hostile-pool replay over CID cells", ["C10"], run, kind="bounded", timeout=1800)


def unit_hostile_data():
    def run(ctx):
        import tempfile, shutil, logging, contextlib
        from cutplace import interface, validio, errors, applications
        logging.getLogger("cutplace").setLevel(logging.CRITICAL)
        CIDS = {"delimited": 'd,format,delimited\nd,thousands separator,","\nf,id,,,,Integer,0...99999\nf,name,,x,...10,Text\nf,kind,,,,Choice,"a,b"\nf,amount,,,,Decimal,0...100\nf,born,,,,DateTime,DD.MM.YYYY\nf,code,,,,Pattern,a?*\nf,rx,,,,RegEx,a[0-9]\nf,const,,,,Constant,k\nc,u,IsUnique,id\nc,k,DistinctCount,kind < 3\n',
                "fixed": "d,format,fixed\nf,id,,,5,Integer\nf,amount,,,8,Decimal\nf,born,,,10,DateTime,DD.MM.YYYY\n"}
        GOOD = {"delimited": ["1", "abc", "a", "1.5", "31.12.2020", "ab1", "a1", "k"], "fixed": ["    1", "    1.50", "31.12.2020"]}
        def cases():
            for name in CIDS:
                for ci in range(len(GOOD[name])):
                    for v in POOL + [None, 5, 1.5, b"x"]:
                        for mode in ("raise", "yield", "continue"): yield (name, ci, v, mode)
        def check(c):
            name, ci, v, mode = c
            cid = interface.create_cid_from_string(CIDS[name]); row = list(GOOD[name]); row[ci] = v
            class R(validio.Reader):
                def _raw_rows(self): return iter([list(row), list(GOOD[name])])
            try:
                with R(cid, io.StringIO(""), on_error=mode) as r:
                    for _ in r.rows(): pass
            except errors.DataError: return None
            except Exception as e: return {"expected": "accepted or DataError", "observed": "%s: %s" % (type(e).__name__, str(e)[:120])}
            return None
        res = [sweep("C10/hostile/every data cell filled from the hostile pool (incl. non-string cells)", cases(), check, "bounded", "delimited CID with all 8 field types + 2 checks and a fixed CID x every cell x %d hostile values x 3 modes" % (len(POOL) + 4),
                     describe=lambda c: {"cid": c[0], "cell": c[1] + 1, "value": c[2], "mode": c[3]}, function="validio.Reader.rows", unit="C10.hostile.data", props=["C10"])]
        # containers: every reader through validio.rows and the command line (never exit code 4)
        tmp = tempfile.mkdtemp(prefix="vf_c10_")
        try:
            from .rowio_ods import encode_ods, write_ods
            import xlsxwriter
            def wfile(name, data):
                p = os.path.join(tmp, name); open(p, "wb").write(data); return p
            cid_paths = {}
            for fmt, text in (("delimited", "d,format,delimited\nd,encoding,utf-8\nf,id,,,,Integer\nf,name\n"), ("fixed", "d,format,fixed\nd,encoding,utf-8\nf,id,,,3,Integer\nf,name,,,3\n"), ("ods", "d,format,ods\nf,id,,,,Integer\nf,name\n"), ("excel", "d,format,excel\nf,id,,,,Integer\nf,name\n")):
                cid_paths[fmt] = wfile("cid_%s.csv" % fmt, text.encode("utf-8"))
            good = {"delimited": b"1,ab\n2,cd\n", "fixed": b"  1ab \n  2cd \n"}
            p = os.path.join(tmp, "g.ods"); write_ods(p, encode_ods([[["1", "ab"], ["2", "cd"]]], set())); good["ods"] = open(p, "rb").read()
            p = os.path.join(tmp, "g.xlsx"); wb = xlsxwriter.Workbook(p); ws = wb.add_worksheet(); [ws.write_string(y, x, v) for y, r in enumerate([["1", "ab"], ["2", "cd"]]) for x, v in enumerate(r)]; wb.close(); good["excel"] = open(p, "rb").read()
            ext = {"delimited": "csv", "fixed": "txt", "ods": "ods", "excel": "xlsx"}
            def ccases():
                for fmt, data in good.items():
                    step = max(1, len(data) // (200 if ctx.thorough else 40))
                    for cut in range(0, len(data), step): yield (fmt, "truncate", cut)
                    for pos in range(0, len(data), step): yield (fmt, "flip", pos)
                    yield (fmt, "garbage", 0); yield (fmt, "undecodable", 0)
                    if fmt in ("ods", "excel"): yield (fmt, "zipdir", 0x1000); yield (fmt, "zipdir", -7); yield (fmt, "zipdir", 0x7fffffff)
                    if fmt == "ods":        # absurd repeat counts on a cell (recorded finding K-6b)
                        for count in (10**15, 99999999999999999999): yield (fmt, "repeat", count)
            k = [0]; known6b = findings.is_known("K-6b", "C10"); k6b = []
            def ccheck(c):
                fmt, kind, pos = c; data = good[fmt]
                def zipdir(delta):        # the 'offset of the central directory' field of the zip end record moved: the archive is there and readable, its directory is not where it says
                    import struct
                    i = data.rfind(b"PK\x05\x06"); off = struct.unpack("<I", data[i + 16:i + 20])[0]
                    return data[:i + 16] + struct.pack("<I", (off + delta) & 0xffffffff) + data[i + 20:]
                def repeated(count):
                    import zipfile
                    src = zipfile.ZipFile(io.BytesIO(data)); out = io.BytesIO()
                    with zipfile.ZipFile(out, "w") as z:
                        for info in src.infolist():
                            blob_ = src.read(info.filename)
                            if info.filename == "content.xml": blob_ = blob_.replace(b"<table:table-cell", b'<table:table-cell table:number-columns-repeated="%d"' % count, 1)
                            z.writestr(info, blob_)
                    return out.getvalue()
                blob = repeated(pos) if kind == "repeat" else zipdir(pos) if kind == "zipdir" else {"truncate": data[:pos], "flip": data[:pos] + bytes([data[pos] ^ 0xFF]) + data[pos + 1:] if data else b"", "garbage": b"\x00\xff\xfe" * 7, "undecodable": data[:3] + b"\xff\xfe" + data[3:]}.get(kind)
                k[0] += 1; path = wfile("c%d.%s" % (k[0], ext[fmt]), blob)
                cid = interface.Cid(cid_paths[fmt])
                try:
                    for _ in validio.rows(cid, path, on_error="continue"): pass
                except errors.DataError: pass
                except (MemoryError, OverflowError) as e:
                    if kind == "repeat" and known6b: k6b.append((c, type(e).__name__)); os.unlink(path); return None
                    return {"expected": "rows or a DataError for a damaged %s container" % fmt, "observed": "%s: %s" % (type(e).__name__, str(e)[:100])}
                except Exception as e: return {"expected": "rows or a DataError for a damaged %s container" % fmt, "observed": "%s: %s" % (type(e).__name__, str(e)[:100])}
                with contextlib.redirect_stderr(io.StringIO()):
                    rc = applications.main(["cutplace", cid_paths[fmt], path])
                os.unlink(path)
                return None if rc in (0, 1) else {"expected": "exit code 0 or 1", "observed": "exit code %r" % rc}
            res.append(sweep("C10/hostile/containers truncated and bit-flipped: API raises only DataError, command line never answers 4", ccases(), ccheck, "bounded",
                             "delimited / fixed / ods / xlsx data files truncated and with one byte flipped at ~40 offsets each (200 in thorough), garbage bytes, undecodable bytes, zip archives whose central directory offset is wrong; through validio.rows and applications.main",
                             describe=lambda c: {"format": c[0], "fault": c[1], "offset": c[2]}, function="validio.rows / applications.main", unit="C10.hostile.data", props=["C10", "C06"]))
            # data streams whose `name` is not a usable text (None: SpooledTemporaryFile; an int: TemporaryFile, standard input; empty): rows or a DataError whose text can be printed
            def scases():
                for fmt in ("delimited", "fixed", "ods", "excel"):
                    for kind in ("none", "int", "empty", "bytes"):
                        for damaged in (False, True): yield (fmt, kind, damaged)
            def scheck(c):
                fmt, kind, damaged = c
                blob = good[fmt] if not damaged else {"delimited": b'1,"ab\n', "fixed": b"  1a", "ods": b"no zip", "excel": b"no workbook"}[fmt]
                class Named(io.BytesIO if fmt in ("ods", "excel") else io.StringIO):
                    pass
                stream = Named(blob if fmt in ("ods", "excel") else blob.decode("utf-8"))
                stream.name = {"none": None, "int": 7, "empty": "", "bytes": b"data"}[kind]
                cid = interface.Cid(cid_paths[fmt])
                try: got = list(validio.rows(cid, stream, on_error="continue"))
                except errors.DataError as e:
                    try: str(e)
                    except Exception as e2: return {"expected": "an error whose text can be printed", "observed": "str(error) raises %s: %s" % (type(e2).__name__, e2)}
                    return None if damaged else {"expected": "the rows of the stream", "observed": repr(e)}
                except Exception as e: return {"expected": "rows or a DataError", "observed": "%s: %s" % (type(e).__name__, str(e)[:100])}
                return None if (damaged or len(got) == 2) else {"expected": "2 rows", "observed": got}
            res.append(sweep("C10/hostile/data streams whose name is None, a number, empty or bytes", scases(), scheck, "bounded", "delimited / fixed / ods / excel data given as a stream x 4 kinds of stream name x {good data, damaged data}",
                             describe=lambda c: {"format": c[0], "stream.name": c[1], "damaged": c[2]}, function="validio.Reader.__init__ / errors.Location", unit="C10.hostile.data", props=["C10", "C04"]))
            # writers: every encoding name a CID accepts either writes the rows or refuses them with a DataError
            def wcases():
                for fmt in ("delimited", "fixed"):
                    for enc in ("idna", "punycode", "ascii", "utf-16", "utf-8-sig", "iso2022_jp", "hz", "cp037", "utf-7", "raw_unicode_escape", "unicode_escape"): yield (fmt, enc)
            def wcheck(c):
                fmt, enc = c
                text = ("d,format,%s\nd,encoding,%s\nf,id,,,%sInteger\nf,name%s\n" % (fmt, enc, "3," if fmt == "fixed" else ",", ",,,3" if fmt == "fixed" else ""))
                try: cid = interface.create_cid_from_string(text)
                except errors.InterfaceError: return None
                path = os.path.join(tmp, "w_%s.txt" % enc)
                try:
                    with validio.Writer(cid, path) as w:
                        for row in (["1", "ab"], ["2", "\u00e4\u20ac"], ["3", "\udce9"], ["4", "cd"]):
                            try: w.write_row(row)
                            except errors.DataError: pass
                except errors.DataError: pass
                except Exception as e: return {"expected": "rows written or a DataError", "observed": "%s: %s" % (type(e).__name__, str(e)[:100])}
                return None
            res.append(sweep("C10/hostile/writing under every kind of encoding a CID accepts", wcases(), wcheck, "bounded", "delimited and fixed CIDs x 11 encodings x 4 rows (ASCII, non-ASCII, a lone surrogate)",
                             describe=lambda c: {"format": c[0], "encoding": c[1]}, function="validio.Writer + rowio writers", unit="C10.hostile.data", props=["C10", "C14"]))
            if k6b:
                res.append(Result("C10/K-6b witness: an absurdly large repeat count on an ODS cell ends in %s" % " / ".join(sorted({x[1] for x in k6b})), "bounded", FAILED, "native", finding="K-6b", cases=len(k6b), props=["C10"],
                                  detail=repr(k6b[0]), replay={"verdict": "confirmed", "input": {"format": "ods", "table:number-columns-repeated": k6b[0][0][2]}, "expected": "DataFormatError", "observed": k6b[0][1]}))
            # the Encoding cell of a CID against a data file read by path: names that Python knows as codecs but that are no text encodings,
            # unknown names, and encodings the data is not written in
            def ecases():
                for fmt in ("delimited", "fixed"):
                    for enc in ("hex", "rot13", "base64", "zlib", "bz2", "uu", "quopri", "punycode", "idna", "unicode_escape", "raw_unicode_escape", "utf-16", "utf-32", "ascii", "cp1252", "UTF8", "latin_1", "undefined", "mbcs", "oem", "x-nonsense", ""):
                        yield (fmt, enc)
            def echeck(c):
                fmt, enc = c
                text = ("d,format,%s\nd,encoding,%s\nf,id,,,%sInteger\nf,name%s\n" % (fmt, enc, "3," if fmt == "fixed" else ",", ",,,3" if fmt == "fixed" else ""))
                path = wfile("e.%s" % ext[fmt], good[fmt] + "\u00e4".encode("utf-8"))
                try: cid = interface.create_cid_from_string(text)
                except errors.InterfaceError: return None
                except Exception as e: return {"expected": "CID accepted or InterfaceError", "observed": "%s: %s" % (type(e).__name__, str(e)[:100])}
                try:
                    for _ in validio.rows(cid, path, on_error="continue"): pass
                except errors.DataError: pass
                except Exception as e: return {"expected": "rows or a DataError", "observed": "%s: %s" % (type(e).__name__, str(e)[:100])}
                return None
            res.append(sweep("C10/hostile/the Encoding cell of a CID against a data file read by path", ecases(), echeck, "bounded", "delimited and fixed CIDs x 22 encoding names (non-text codecs, unknown names, mismatching encodings)",
                             describe=lambda c: {"format": c[0], "encoding": c[1]}, function="data.DataFormat.encoding + rowio readers", unit="C10.hostile.data", props=["C10", "C06"]))
        finally:
            shutil.rmtree(tmp, ignore_errors=True)
        return res
    return NativeUnit("C10.hostile.data", "bounded hostile-pool replay over data cells and damaged containers", ["C10", "C06"], run, kind="bounded", timeout=1800)
