"""Structural obligations re-read from the AST of /repo on every run (dynamic dispatch resolution, frame scans)."""
import ast
from pyvc import source as S
from vf.unit import NativeUnit
from vf.model import *


def unit_field_class_structure():
    def run(ctx):
        mod = S.module("fields")
        guards = ["validated", "validate_characters", "validate_empty", "validate_length"]
        res = []
        bad = [(c.name, m) for c in mod.classes.values() if c.name != "AbstractFieldFormat" for m in guards if m in c.methods]
        res.append(Result("struct/no-field-format-overrides-the-guard-methods", "struct", PASSED if not bad else FAILED, "ast", function="fields.*FieldFormat",
                          detail="overrides: %r" % bad, replay=None if not bad else {"verdict": "confirmed", "input": "class definitions in cutplace/fields.py", "expected": "no override of %s" % guards, "observed": bad}))
        concrete = [c for c in mod.classes.values() if c.name != "AbstractFieldFormat" and any(k.name == "AbstractFieldFormat" for k in S.mro(c))]
        missing = [c.name for c in concrete if S.lookup_method(c, "validated_value")[0].name == "AbstractFieldFormat"]
        res.append(Result("struct/every-concrete-field-format-defines-validated_value", "struct", PASSED if not missing and len(concrete) >= 8 else FAILED, "ast", function="fields.*FieldFormat",
                          detail="concrete=%d missing=%r" % (len(concrete), missing), replay=None if not missing else {"verdict": "confirmed", "input": "cutplace/fields.py", "expected": "validated_value defined", "observed": missing}))
        return res
    return NativeUnit("fields.class-structure", "class structure obligations for dynamic dispatch in AbstractFieldFormat.validated", ["C03", "C20", "C02"], run, kind="struct")


MODULES = ["errors", "ranges", "fields", "checks", "data", "interface", "validio", "rowio", "applications", "sql", "_tools", "_compat"]


def unit_no_hidden_state():
    """what a per-call contract cannot see: wrappers around functions (caches) and module- / class-level containers mutated in place.
    On the unchanged tree there are none; if a change introduces one, the contracts no longer describe the code that runs, which is
    reported as undecided (never as held), and the bounded history checks decide whether behaviour actually changed."""
    def run(ctx):
        wrapped = []; shared = []
        for m in MODULES:
            mod = S.module(m)
            for n in ast.walk(mod.tree):
                if isinstance(n, ast.FunctionDef):
                    fd = S.foreign_decorators(n)
                    if fd: wrapped.append("%s.%s (@%s)" % (m, n.name, ", @".join(fd)))
            shared += ["%s.%s" % (m, x) for x in sorted(S.shared_mutable_names(mod))]
        res = [Result("struct/no-function-is-wrapped-by-a-caching-or-other-decorator", "struct", PASSED if not wrapped else UNDECIDED, "ast", function="cutplace.*",
                      detail="wrapped functions: %s: calls to them no longer run the body the contracts were generated from (state kept by the wrapper is invisible to a per-call contract)" % wrapped if wrapped else ""),
               Result("struct/no-module-or-class-level-container-is-mutated-in-place", "struct", PASSED if not shared else UNDECIDED, "ast", function="cutplace.*",
                      detail="shared mutable containers: %s: their content depends on earlier calls" % shared if shared else "")]
        return res
    return NativeUnit("structure.no-hidden-state", "no wrapper (cache) around any function and no module- / class-level container mutated in place: per-call contracts see all the state there is", ["C08", "C19", "C20"], run, kind="struct")
