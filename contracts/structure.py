"""Structural obligations re-read from the AST of /repo on every run (dynamic dispatch resolution, frame scans)."""
import ast
from pyvc import source as S
from vf.unit import NativeUnit
from vf.model import *


def unit_field_class_structure():
    def run(ctx):
        mod = S.module("fields")
        guards = ["validated", "validate_characters", "validate_empty", "validate_length"]
        res = []
        bad = [(c.name, m) for c in mod.classes.values() if c.name != "AbstractFieldFormat" for m in guards if m in c.methods]
        res.append(Result("struct/no-field-format-overrides-the-guard-methods", "struct", PASSED if not bad else FAILED, "ast", function="fields.*FieldFormat",
                          detail="overrides: %r" % bad, replay=None if not bad else {"verdict": "confirmed", "input": "class definitions in cutplace/fields.py", "expected": "no override of %s" % guards, "observed": bad}))
        concrete = [c for c in mod.classes.values() if c.name != "AbstractFieldFormat" and any(k.name == "AbstractFieldFormat" for k in S.mro(c))]
        missing = [c.name for c in concrete if S.lookup_method(c, "validated_value")[0].name == "AbstractFieldFormat"]
        res.append(Result("struct/every-concrete-field-format-defines-validated_value", "struct", PASSED if not missing and len(concrete) >= 8 else FAILED, "ast", function="fields.*FieldFormat",
                          detail="concrete=%d missing=%r" % (len(concrete), missing), replay=None if not missing else {"verdict": "confirmed", "input": "cutplace/fields.py", "expected": "validated_value defined", "observed": missing}))
        return res
    return NativeUnit("fields.class-structure", "class structure obligations for dynamic dispatch in AbstractFieldFormat.validated", ["C03", "C20", "C02"], run, kind="struct")
