"""Bounded stand-ins and axiom audits for the text -> token front end of ranges (axiom A-TOK, A-INT) and the
end-to-end sweep the quantifier of C01 describes. Everything here runs the real code natively; it is labelled bounded
and never counted as proved."""
import itertools, random, token as TK
from fractions import Fraction
from vf.unit import NativeUnit, sweep
from vf.model import *

SEPS = ["...", ":", "…"]
NAMES = {"cr": 13, "ff": 12, "lf": 10, "tab": 9, "vt": 11}


def n_item_contains(item, v):
    lo, hi = item
    return (lo is None or lo <= v) and (hi is None or v <= hi)


def spell_int(v, style):
    if style == "dec": return str(v)
    if style == "hex": return ("-" if v < 0 else "") + hex(abs(v))
    if style == "HEX": return ("-" if v < 0 else "") + "0X%X" % abs(v)
    if style == "sp": return ("- " if v < 0 else "") + str(abs(v))
    raise ValueError(style)


def render_item(item, sep, style):
    lo, hi, single = item
    if single: return spell_int(lo, style)
    return ("" if lo is None else spell_int(lo, style)) + sep + ("" if hi is None else spell_int(hi, style))


def items_pool(limits):
    """(lo, hi, is_single) with lo <= hi"""
    out = [(v, v, True) for v in limits]
    out += [(a, b, False) for a in [None] + list(limits) for b in [None] + list(limits)
            if not (a is None and b is None) and not (a is not None and b is not None and a > b)]
    return out


def overlaps(a, b):
    """as sets of integers"""
    alo, ahi = a[0], a[1]; blo, bhi = b[0], b[1]
    lo = alo if blo is None else (blo if alo is None else max(alo, blo))
    hi = ahi if bhi is None else (bhi if ahi is None else min(ahi, bhi))
    return lo is None or hi is None or lo <= hi


def limits_of(items):
    lows = [i[0] for i in items]; highs = [i[1] for i in items]
    return (None if any(l is None for l in lows) else min(lows)), (None if any(h is None for h in highs) else max(highs))


def descriptions(ctx, limits=(-2, -1, 0, 1, 2)):
    pool = items_pool(limits)
    styles = ["dec", "hex", "sp"]
    # all single-item descriptions x every separator x every limit spelling
    for it in pool:
        for sep in SEPS:
            for st in styles:
                yield [it], render_item(it, sep, st)
    # all ordered pairs of non-overlapping items; separator / spelling / joiner rotate deterministically so every spelling occurs
    k = 0
    for a in pool:
        for b in pool:
            if overlaps(a, b): continue
            k += 1
            sep1 = SEPS[k % 3]; sep2 = SEPS[(k // 3) % 3]; st = styles[(k // 9) % 3]; joiner = [",", ", ", " ,"][(k // 27) % 3]
            yield [a, b], render_item(a, sep1, st) + joiner + render_item(b, sep2, st)


def check_range_description(case, values=range(-4, 5)):
    from cutplace import ranges, errors
    items, text = case
    want = [(i[0], i[1]) for i in items]
    try:
        r = ranges.Range(text)
    except Exception as e:
        return {"expected": "accepted with items %r" % (want,), "observed": "%s: %s" % (type(e).__name__, e)}
    if r.items != want:
        return {"expected": "items %r" % (want,), "observed": "items %r" % (r.items,)}
    lo, hi = limits_of(want)
    if (r.lower_limit, r.upper_limit) != (lo, hi):
        return {"expected": "limits %r" % ((lo, hi),), "observed": "limits %r" % ((r.lower_limit, r.upper_limit),)}
    for v in values:
        exp = any(n_item_contains(i, v) for i in want)
        try:
            r.validate("x", v); obs = True
        except errors.RangeValueError:
            obs = False
        except Exception as e:
            return {"expected": "accept" if exp else "RangeValueError", "observed": "%s for value %r" % (type(e).__name__, v)}
        if obs != exp:
            return {"expected": "value %r %s" % (v, "accepted" if exp else "rejected"), "observed": "value %r %s" % (v, "accepted" if obs else "rejected")}
    return None


def unit_sweep_range_text():
    def run(ctx):
        res = [sweep("C01/sweep/Range(text) for all 1-2 item descriptions", descriptions(ctx), check_range_description, "bounded",
                     "all 1-2 item descriptions, limits in {-2..2, none}, every separator spelling (..., :, U+2026), decimal / hex / blank-after-minus limit spellings x values -4..4; items, limits and verdicts compared",
                     describe=lambda c: {"description": c[1], "denotes": [(i[0], i[1]) for i in c[0]]}, function="ranges.Range.__init__ + validate", unit="C01.sweep.range-text")]
        # quoted characters and symbolic names as limits
        def char_cases():
            for sep in SEPS:
                yield [(97, 99, False)], "'a'%s\"c\"" % sep
                yield [(97, 99, False)], "'a'%s'c'" % sep
                yield [(48, 57, False), (120, 120, True)], "'0'%s'9', 'x'" % sep
                yield [(65, 67, False), (5, 7, False)], "'A'%s'C', 5%s7" % (sep, sep)
                yield [(97, None, False), (None, 90, False)], "'a'%s, %s'Z'" % (sep, sep)
                yield [(34, 39, False)], "'\"'%s\"'\"" % sep
                yield [(9, 13, False)], "tab%sCR" % sep
                yield [(9, 9, True), (11, 12, False), (65, None, False)], "Tab, vt%sff, 'A'%s" % (sep, sep)
                yield [(None, 10, False), (0x41, 0x5a, False)], "%sLF,0x41%s0x5A" % (sep, sep)
                yield [(8230, 8230, True)], "'…'"
                yield [(8230, 8231, False)], "\"…\"%s8231" % sep
                # a quote character written with a backslash inside quotes of the same kind is still one quoted character: what follows it is outside the quotes
                yield [(39, 97, False)], "'\\''%s'a'" % sep
                yield [(34, 97, False)], "\"\\\"\"%s\"a\"" % sep
                yield [(39, 39, True), (8230, None, False)], "'\\'', '…'%s" % sep
                yield [(34, 34, True), (8230, 8230, True), (8232, None, False)], "\"\\\"\", \"…\", 8232%s" % sep
                yield [(92, 92, True), (97, 99, False)], "'\\\\', 'a'%s'c'" % sep
                yield [(39, 39, True), (92, 92, True), (97, None, False)], "'\\'', '\\\\', 'a'%s" % sep
        res.append(sweep("C01/sweep/quoted characters and symbolic names", char_cases(), lambda c: check_range_description(c, [8, 9, 10, 11, 12, 13, 14, 33, 34, 35, 38, 39, 40, 57, 58, 59, 64, 65, 90, 91, 92, 93, 96, 97, 98, 99, 100, 8229, 8230, 8231, 8232, 8233]), "bounded",
                         "hand-listed descriptions with quoted characters, symbolic names (any case), hex limits x 3 separators", function="ranges.Range.__init__", unit="C01.sweep.range-text"))
        if ctx.thorough:
            rng = random.Random(ctx.seed)
            pool = items_pool(range(-6, 7))
            def rnd():
                for _ in range(4000):
                    k = rng.choice([3, 4]); items = []
                    for _ in range(50):
                        c = rng.choice(pool)
                        if all(not overlaps(c, o) for o in items): items.append(c)
                        if len(items) == k: break
                    text = rng.choice([",", ", "]).join(render_item(i, rng.choice(SEPS), rng.choice(["dec", "hex", "HEX", "sp"])) for i in items)
                    yield items, text
            res.append(sweep("C01/sweep/random 3-4 item descriptions", rnd(), lambda c: check_range_description(c, range(-8, 9)), "bounded",
                             "4000 random non-overlapping 3-4 item descriptions, limits -6..6, values -8..8 (seeded)", function="ranges.Range.__init__", unit="C01.sweep.range-text"))
        return res
    return NativeUnit("C01.sweep.range-text", "end-to-end sweep of Range(text): bounded stand-in for the text->token step (A-TOK) and for _tokenizable_description", ["C01"], run, kind="bounded")


# ---------------------------------------------------------------- A-TOK audit: token sequences
def expected_tokens(items, seps, style):
    """token (type, text) sequence the verified token loop assumes for this description (the layout of ranges_init.item_layout)"""
    toks = []
    for k, it in enumerate(items):
        lo, hi, single = it
        def lim(v):
            if v < 0: toks.append((TK.OP, "-"))
            toks.append((TK.NUMBER, spell_int(abs(v), "dec" if style == "sp" else style)))
        if lo is not None: lim(lo)
        if not single:
            toks.append(("ELL", seps[k]))
            if hi is not None: lim(hi)
        toks.append((TK.OP, ",") if k < len(items) - 1 else (TK.ENDMARKER, ""))
    return toks


def check_tokens(case):
    from cutplace import ranges, _tools
    items, seps, style = case
    text = ",".join(render_item(i, s, style) for i, s in zip(items, seps))
    tokenizable = ranges._tokenizable_description(text.replace("...", ranges.ELLIPSIS)) if hasattr(ranges, "_tokenizable_description") else text.replace("...", ranges.ELLIPSIS)
    try:
        got = [(t[0], t[1]) for t in _tools.tokenize_without_space(tokenizable)]
    except Exception as e:
        return {"expected": "token stream", "observed": "%s: %s" % (type(e).__name__, e)}
    want = expected_tokens(items, seps, style)
    if len(got) != len(want):
        return {"expected": want, "observed": got}
    for g, w in zip(got, want):
        if w[0] == "ELL":
            if not ((g[0] == TK.OP and g[1] == ":") or (g[0] == TK.ERRORTOKEN and g[1] == "…")):
                return {"expected": "ellipsis token (OP ':' or ERRORTOKEN U+2026)", "observed": g}
        elif g != w:
            return {"expected": w, "observed": g}
    return None


def unit_audit_tok():
    def run(ctx):
        pool = items_pool((-2, -1, 0, 1, 2))
        def cases():
            for it in pool:
                for sep in SEPS:
                    for st in ("dec", "hex", "sp"):
                        yield [it], [sep], st
            k = 0
            for a in pool:
                for b in pool:
                    k += 1
                    yield [a, b], [SEPS[k % 3], SEPS[(k // 3) % 3]], ("dec", "hex", "sp")[(k // 9) % 3]
        r1 = sweep("A-TOK/range grammar -> token layout", cases(), check_tokens, "audit",
                   "all 1-2 item descriptions over limits {-2..2, none} x separators x limit spellings: tokenize_without_space(_tokenizable_description(text)) equals the token layout the proof of Range.__init__ assumes",
                   describe=lambda c: {"items": c[0], "separators": c[1], "style": c[2]}, function="_tools.tokenize_without_space", unit="C01.audit.A-TOK")
        def int_cases():
            for v in list(range(0, 300)) + [2**31 - 1, 2**31, 2**63, 10**20]:
                for st in ("dec", "hex", "HEX"):
                    yield v, spell_int(v, st)
        def check_int(c):
            v, text = c
            try: got = int(text, 0)
            except Exception as e: return {"expected": v, "observed": repr(e)}
            return None if got == v else {"expected": v, "observed": got}
        r2 = sweep("A-INT/int(text, 0) on grammar literals", int_cases(), check_int, "audit", "decimal and 0x literals 0..299 and large boundary values", function="int", unit="C01.audit.A-TOK")
        return [r1, r2]
    return NativeUnit("C01.audit.A-TOK", "audit of axioms A-TOK / A-INT used by the Range.__init__ proof", ["C01", "C02", "C09", "C11"], run, kind="audit")


# ---------------------------------------------------------------- decimal ranges, end to end
DEC_LIMITS = ["-2.5", "-1", "0", "0.25", "1.50", "3"]


def dec_descriptions(ctx):
    from decimal import Decimal
    pool = [(a, a, True) for a in DEC_LIMITS] + [(a, b, False) for a in [None] + DEC_LIMITS for b in [None] + DEC_LIMITS
                                                   if not (a is None and b is None) and not (a is not None and b is not None and Decimal(a) > Decimal(b))]
    def dv(x): return None if x is None else Decimal(x)
    def rend(it, sep):
        lo, hi, single = it
        f = lambda v: v if not v.startswith("-") else "-" + v[1:]
        return f(lo) if single else ("" if lo is None else f(lo)) + sep + ("" if hi is None else f(hi))
    for it in pool:
        for sep in SEPS:
            yield [(dv(it[0]), dv(it[1]), it[2])], rend(it, sep)
    # limits with more significant digits than the default decimal context (28): nothing may be rounded on the way
    LONG = "1234567890123456789.123456789012"
    for it in ((LONG, None, False), (None, LONG, False), (LONG, LONG, True), ("-" + LONG, LONG, False)):
        yield [(dv(it[0]), dv(it[1]), it[2])], rend(it, SEPS[0])
    k = 0
    for a in pool:
        for b in pool:
            A = (dv(a[0]), dv(a[1])); B = (dv(b[0]), dv(b[1]))
            if overlaps(A, B): continue
            k += 1
            if k % 3: continue
            yield [(A[0], A[1], a[2]), (B[0], B[1], b[2])], rend(a, SEPS[k % 3]) + [",", ", "][k % 2] + rend(b, SEPS[(k // 3) % 3])


def _digits(texts):
    from decimal import Decimal
    after = before = 0
    for t in texts:
        _, digits, exp = Decimal(t.lstrip("-")).as_tuple()
        after = max(after, max(0, -exp)); before = max(before, len(digits) + exp)
    return after, before + after


def check_decimal_description(case):
    from decimal import Decimal
    from cutplace import ranges, errors
    items, text = case
    want = [(i[0], i[1]) for i in items]
    try:
        r = ranges.DecimalRange(text)
    except Exception as e:
        return {"expected": "accepted with items %r" % (want,), "observed": "%s: %s" % (type(e).__name__, e)}
    if r.items != want:
        return {"expected": "items %r" % (want,), "observed": "items %r" % (r.items,)}
    lo, hi = limits_of(want)
    if (r.lower_limit, r.upper_limit) != (lo, hi):
        return {"expected": "limits %r" % ((lo, hi),), "observed": "limits %r" % ((r.lower_limit, r.upper_limit),)}
    import re
    numerals = re.findall(r"\d+(?:\.\d+)?", text)
    prec, scale = _digits(numerals)
    if (r.precision, r.scale) != (prec, scale):
        return {"expected": "precision %d scale %d" % (prec, scale), "observed": "precision %r scale %r" % (r.precision, r.scale)}
    probes = set()
    for a, b in want:
        for x in (a, b):
            if x is not None:
                probes.update([x, x - Decimal("0.01"), x + Decimal("0.01")])
                if len(x.as_tuple().digits) > 28: probes.update([x - Decimal("0.000000000001"), x + Decimal("0.000000000001")])
    for v in sorted(probes) + [str(p_) for p_ in sorted(probes)]:          # every probe as a Decimal and as the text denoting it
        exp = any(n_item_contains(i, Decimal(v)) for i in want)
        try: r.validate("x", v); obs = True
        except errors.RangeValueError: obs = False
        except Exception as e: return {"expected": "verdict", "observed": "%s for %r" % (type(e).__name__, v)}
        if obs != exp:
            return {"expected": "value %s %s" % (v, "accepted" if exp else "rejected"), "observed": "value %s %s" % (v, "accepted" if obs else "rejected")}
    return None


def unit_sweep_decimal_text():
    def run(ctx):
        return [sweep("C01/sweep/DecimalRange(text)", dec_descriptions(ctx), check_decimal_description, "bounded",
                      "all 1-item and every third non-overlapping 2-item description over decimal limits %s and open ends x 3 separators; items, limits, precision/scale and verdicts at every boundary +-0.01" % DEC_LIMITS,
                      describe=lambda c: {"description": c[1]}, function="ranges.DecimalRange.__init__ + validate", unit="C01.sweep.decimal-text")]
    return NativeUnit("C01.sweep.decimal-text", "end-to-end sweep of DecimalRange(text)", ["C01", "C19"], run, kind="bounded")


from vf.unit import Oracle
class RangeTextOracle(Oracle):
    bound = "first 150 (quick) / 2000 (thorough) of the 1-2 item description sweep"
    def cases(self, ctx): return descriptions(ctx)
    def check(self, case): return check_range_description(case)
    def describe(self, case): return {"description": case[1], "call": "ranges.Range(description); items / limits / validate(-4..4)"}


class DecimalTextOracle(Oracle):
    bound = "first 150 (quick) / 2000 (thorough) of the decimal description sweep"
    def cases(self, ctx): return dec_descriptions(ctx)
    def check(self, case): return check_decimal_description(case)
    def describe(self, case): return {"description": case[1], "call": "ranges.DecimalRange(description)"}
