"""rowio._excel_cell_value, rowio.excel_rows, XlsxRowWriter.write_row, Reader._raw_rows (C16; error paths C06/C10)."""
import io, itertools, os, z3
from .common import *
from vf import findings
from vf.unit import ProofUnit, NativeUnit, Oracle, sweep
from vf.model import *

FLOAT = Abs("Float")
XL_TEXT, XL_NUMBER, XL_DATE, XL_BOOLEAN, XL_ERROR = 1, 2, 3, 4, 5


def fstr(ex, z): return ex.absfun_s("str_of_float", [sort_of(FLOAT)], z3.StringSort())(z)


def m_xldate_as_tuple(ex, st, fn, args, kw):
    """A-XLRD: xldate_as_tuple(value, datemode) -> (y, m, d, h, mi, s); may raise XLDateError for out-of-range serials (an XLRDError? no: ValueError subclass)"""
    v = args[0]
    f = lambda name: Sym(INT, ex.absfun_s("xldate_" + name, [sort_of(FLOAT)], z3.IntSort())(v.z))
    yield st, tuple(f(n) for n in ("y", "mo", "d", "h", "mi", "s"))


def m_time(ex, st, fn, args, kw):
    r = Ref("time"); st.heap[r.oid] = {"parts": tuple(args)}; yield st, r
def m_datetime(ex, st, fn, args, kw):
    r = Ref("datetime"); st.heap[r.oid] = {"parts": tuple(args)}; yield st, r
def m_str_time(ex, st, recv, args, kw):
    p = st.heap[recv.oid]["parts"]; f = ex.absfun_s("time_str", [z3.IntSort()] * 3, z3.StringSort()); yield st, Sym(STR, f(*[lift(x).z for x in p]))
def m_str_datetime(ex, st, recv, args, kw):
    p = st.heap[recv.oid]["parts"]; f = ex.absfun_s("datetime_str", [z3.IntSort()] * 6, z3.StringSort()); yield st, Sym(STR, f(*[lift(x).z for x in p]))


def cell_value_contract(kind):
    """kind: 'str' (text cells), 'float' (number / date cells), 'int' (boolean / error cells)"""
    def setup(ex, st):
        ctype = fresh(INT, "ctype")[0]
        if kind == "str": value = fresh(STR, "value")[0]; st.pc.append(ctype.z == XL_TEXT)
        elif kind == "float": value = fresh(FLOAT, "value")[0]; st.pc.append(z3.Or(ctype.z == XL_NUMBER, ctype.z == XL_DATE))
        else: value = fresh(INT, "value")[0]; st.pc.append(z3.Or(ctype.z == XL_BOOLEAN, ctype.z == XL_ERROR)); st.pc.append(z3.Implies(ctype.z == XL_BOOLEAN, z3.Or(value.z == 0, value.z == 1)))
        cell = Ref("Cell"); st.heap[cell.oid] = {"ctype": ctype, "value": value}
        st.frames[-1].env.update({"cell": cell, "datemode": fresh(INT, "datemode")[0]}); st.ghost.update({"ctype": ctype, "value": value})
    def rendering(ex, st):
        r = lift(st.ghost["__result__"]).z; ct = G(st, "ctype"); v = st.ghost["value"]
        if kind == "str": return Sym(BOOL, r == v.z)
        if kind == "int":
            import xlrd
            err = z3.StringVal(xlrd.error_text_from_code[0x2A])
            for code, text in xlrd.error_text_from_code.items(): err = z3.If(v.z == code, z3.StringVal(text), err)
            return Sym(BOOL, z3.If(ct == XL_BOOLEAN, r == z3.If(v.z == 1, z3.StringVal("1"), z3.StringVal("0")), r == err))
        f = lambda name: ex.absfun_s("xldate_" + name, [sort_of(FLOAT)], z3.IntSort())(v.z)
        y, mo, d, h, mi, s_ = [f(n) for n in ("y", "mo", "d", "h", "mi", "s")]
        date = z3.If(z3.And(y == 0, mo == 0, d == 0), ex.absfun_s("time_str", [z3.IntSort()] * 3, z3.StringSort())(h, mi, s_), ex.absfun_s("datetime_str", [z3.IntSort()] * 6, z3.StringSort())(y, mo, d, h, mi, s_))
        fs = fstr(ex, v.z)
        num = z3.If(z3.SuffixOf(z3.StringVal(".0"), fs), z3.SubString(fs, 0, z3.Length(fs) - 2), fs)
        return Sym(BOOL, z3.If(ct == XL_DATE, r == date, r == num))
    return Contract("rowio._excel_cell_value", setup,
        returns=[Clause(rendering, "cell-renders-as-documented:-text-verbatim-/-number-without-.0-suffix-/-1-0-/-date-or-pure-time-/-error-text", props=["C16"])],
        raises={}, expect=["return"], n_loops=0, modifies=[], raises_only_props=["C16", "C10"])


def unit_excel_cell_value():
    def make(ctx):
        cal = {"builtin:xlrd.xldate_as_tuple": m_xldate_as_tuple, "builtin:datetime.time": m_time, "builtin:datetime.datetime": m_datetime, "ref:time.__str__": m_str_time, "ref:datetime.__str__": m_str_datetime,
               "strof:Float": lambda ex, st, v: Sym(STR, fstr(ex, v.z))}
        A = ["A-XLRD: xldate_as_tuple is an abstract function of the cell value; cell.ctype / cell.value as delivered by xlrd",
             "A-FLT: str(float) is the shortest round-tripping repr, str(datetime) is 'YYYY-MM-DD hh:mm:ss', str(time) is 'hh:mm:ss' (uninterpreted here, audited natively by the workbook table)"]
        return [{"contract": cell_value_contract(k), "callees": cal, "label": k + " cells", "assumptions": A} for k in ("str", "float", "int")]
    return ProofUnit("rowio._excel_cell_value", "_excel_cell_value: one branch per cell type, renderings as documented", ["C16"], make, None)


# ---------------------------------------------------------------- excel_rows
CELLV = z3.Function("cell_text", z3.IntSort(), z3.IntSort(), z3.IntSort(), z3.StringSort())     # (sheet index, y, x) -> rendered text


def m_open_workbook(ex, st, fn, args, kw):
    kind = fresh(INT, "open_outcome")[0]
    ex.obligations.append(Obligation("the-workbook-opened-is-the-source:-the-path-or-the-bytes-read-from-the-stream", st.pc,
                                     z3.BoolVal((len(args) == 1 and args[0] is st.frames[-1].env.get("source_path") and not kw) or (not args and list(kw) == ["file_contents"] and kw["file_contents"] is st.ghost.get("stream_bytes"))), "post", props=["C16", "C17"]))
    if True:
        sb = st.copy(); sb.ghost["fault"] = True; yield sb, Raise(ex.new_builtin_exc(sb, "XLRDError", ["not an Excel file"]))
        sc = st.copy(); sc.ghost["fault"] = True; yield sc, Raise(ex.new_builtin_exc(sc, "OSError", ["seek to an impossible position in a damaged archive"]))
        sd = st.copy(); sd.ghost["fault"] = True; yield sd, Raise(ex.new_builtin_exc(sd, "UnicodeDecodeError", ["bad bytes"]))
        for other in ("BadZipFile", "EOFError", "KeyError", "ParseError"):      # what the libraries under xlrd raise for damaged archives (found by fault injection)
            se = st.copy(); se.ghost["fault"] = True; yield se, Raise(ex.new_builtin_exc(se, other, ["damaged"]))
    book = Ref("Book"); st.heap[book.oid] = {"nsheets": st.ghost["nsheets"], "datemode": fresh(INT, "datemode")[0]}
    st.ghost["book"] = book; yield st, book


def m_open(ex, st, fn, args, kw):
    """the probe open(source_path, 'rb'): fails with OSError iff the file cannot be opened"""
    ex.obligations.append(Obligation("the-file-probed-is-the-source-path-opened-for-reading", st.pc, z3.BoolVal(args[0] is st.frames[-1].env.get("source_path") and (len(args) < 2 or args[1] in ("rb", "r"))), "post", props=["C18", "C10"]))
    sb = st.copy(); sb.ghost["cannot_open"] = True; yield sb, Raise(ex.new_builtin_exc(sb, "OSError", ["cannot open"]))
    f = Ref("File"); st.heap[f.oid] = {}; st.ghost["probed"] = True; yield st, f


def m_sheet_by_index(ex, st, recv, args, kw):
    k = lift(args[0]).z
    ex.obligations.append(Obligation("sheet_by_index-is-called-with-an-existing-index", st.pc, z3.And(k >= 0, k < G(st, "nsheets")), "post", props=["C16", "C10"]))
    sh = Ref("Sheet"); st.heap[sh.oid] = {"nrows": st.ghost["nrows"], "ncols": st.ghost["ncols"], "index": Sym(INT, k)}
    st.ghost["sheet_read"] = Sym(INT, k); yield st, sh


def m_sheet_cell(ex, st, recv, args, kw):
    c = Ref("Cell"); st.heap[c.oid] = {"sheet": st.heap[recv.oid]["index"], "y": args[0], "x": args[1]}; yield st, c


def m_cell_value(ex, st, fn, args, kw):
    c = st.heap[args[0].oid]; yield st, Sym(STR, CELLV(lift(c["sheet"]).z, lift(c["y"]).z, lift(c["x"]).z))


def excel_rows_contract(stream=False):
    def setup(ex, st):
        sheet = fresh(INT, "sheet")[0]; st.pc.append(sheet.z >= 1)
        ns = fresh(INT, "nsheets")[0]; nr = fresh(INT, "nrows")[0]; nc = fresh(INT, "ncols")[0]; st.pc.extend([ns.z >= 1, nr.z >= 0, nc.z >= 0])
        if stream: path = Ref("ByteStream"); st.heap[path.oid] = {}
        else: path = fresh(STR, "path")[0]; st.pc.append(z3.Length(path.z) > 0)
        st.frames[-1].env.update({"source_path": path, "sheet": sheet})
        st.ghost.update({"sheet0": sheet, "nsheets": ns, "nrows": nr, "ncols": nc, "fault": False, "cannot_open": False, "rows_yielded": 0, "sheet_read": None, "book": None, "stream_bytes": None})
        def on_yield(s, v):
            y = lift(s.frames[-1].env["_i0"]).z; k = G(s, "sheet0") - 1; j = z3.Int("j!xr")
            goal = z3.BoolVal(False)
            if isinstance(v, UFL):
                goal = z3.And(v.length == G(s, "ncols"), z3.ForAll([j], z3.Implies(z3.And(0 <= j, j < v.length), v.at(j) == CELLV(k, y, j))), G(s, "rows_yielded") == y)
            ex.obligations.append(Obligation("yielded-row-y-has-one-rendered-cell-per-sheet-column-of-the-requested-sheet", s.pc, goal, "post", props=["C16", "C04"]))
            s.ghost["rows_yielded"] = Sym(INT, G(s, "rows_yielded") + 1)
        ex.yield_hook = on_yield
    def row_upto(ex, st, row, k):
        kk = lift(k).z; j = z3.Int("j!ru"); y = lift(st.frames[-1].env["_i0"]).z; sh = G(st, "sheet0") - 1
        if isinstance(row, list): return Sym(BOOL, z3.And(z3.BoolVal(len(row) == 0), kk == 0))
        return Sym(BOOL, z3.And(row.length == kk, z3.ForAll([j], z3.Implies(z3.And(0 <= j, j < kk), row.at(j) == CELLV(sh, y, j)))))
    c = Contract("rowio.excel_rows", setup,
        returns=[Clause("rows_yielded == nrows", "every-row-of-the-sheet-is-returned", props=["C16"]),
                 Clause(lambda ex, st: Sym(BOOL, lift(st.ghost["sheet_read"]).z == G(st, "sheet0") - 1) if st.ghost["sheet_read"] is not None else Sym(BOOL, z3.BoolVal(False)), "the-sheet-read-is-the-one-requested", props=["C16"])],
        raises={"DataFormatError": [Clause(lambda ex, st: Sym(BOOL, z3.Or(z3.BoolVal(bool(st.ghost["fault"])), G(st, "sheet0") > G(st, "nsheets"))), "data-format-error-only-for-a-broken-workbook-or-a-missing-sheet", props=["C16", "C06", "C10"])],
                "OSError": [Clause(lambda ex, st: Sym(BOOL, z3.BoolVal(bool(st.ghost.get("cannot_open")))), "an-OSError-escapes-only-if-the-file-cannot-be-opened-(damage-inside-a-readable-file-is-a-data-format-error)", props=["C10", "C18", "C06"])]},
        loops={0: LoopSpec(invariants=["rows_yielded == _i0"], havoc={"y": INT, "row": UFList(STR), "x": INT, "location._line": INT, "location._cell": INT, "location._column": INT}, ghost_havoc={"rows_yielded": INT}),
               1: LoopSpec(invariants=["row_upto(row, _i1)"], havoc={"x": INT, "row": UFList(STR), "location._cell": INT})},
        expect=["return", "DataFormatError"], n_loops=2, raises_only_props=["C16", "C06", "C10"])
    c._sf = {"row_upto": row_upto}
    return c


def m_stream_read(ex, st, recv, args, kw):
    b = Opaque(); st.ghost["stream_bytes"] = b; yield st, b


def unit_excel_rows():
    def make(ctx):
        c = excel_rows_contract()
        c2 = excel_rows_contract(stream=True)
        cal = {"builtin:xlrd.open_workbook": m_open_workbook, "builtin:open": m_open, "ref:Book.sheet_by_index": m_sheet_by_index, "ref:Sheet.cell": m_sheet_cell, "rowio._excel_cell_value": ModelContract(m_cell_value), "ref:ByteStream.read": m_stream_read}
        A = ["A-XLRD: open_workbook raises only XLRDError / UnicodeError / OSError (audited by fault injection; see known findings for what the audit disproves); sheet_by_index(k) is the k-th sheet; nrows / ncols / cell(y, x)",
             "_excel_cell_value is used through its contract (cell_text)"]
        return [{"contract": c, "spec_functions": c._sf, "callees": cal, "assumptions": A, "label": "from a path"},
                {"contract": c2, "spec_functions": c2._sf, "callees": cal, "assumptions": A + ["a binary stream delivers its content through read() (no error modelled)"], "label": "from a binary stream"}]
    return ProofUnit("rowio.excel_rows", "excel_rows: requested sheet, every row, one rendered cell per column; missing sheet / broken workbook -> DataFormatError", ["C16", "C06", "C10", "C04"], make, None)


def _unused_unit_excel_rows_old():
    def make(ctx):
        c = excel_rows_contract()
        return {"contract": c, "spec_functions": c._sf,
                "callees": {"builtin:xlrd.open_workbook": m_open_workbook, "builtin:open": m_open, "ref:Book.sheet_by_index": m_sheet_by_index, "ref:Sheet.cell": m_sheet_cell, "rowio._excel_cell_value": ModelContract(m_cell_value)},
                "assumptions": ["A-XLRD: open_workbook raises only XLRDError / UnicodeError / OSError (audited by fault injection; see known findings for what the audit disproves); sheet_by_index(k) is the k-th sheet; nrows / ncols / cell(y, x)",
                                "_excel_cell_value is used through its contract (cell_text)"]}
    return ProofUnit("rowio.excel_rows", "excel_rows: requested sheet, every row, one rendered cell per column; missing sheet / broken workbook -> DataFormatError", ["C16", "C06", "C10", "C04"], make, None)


# ---------------------------------------------------------------- workbook audit (bounded): axioms A-XLRD / A-FLT and the end-to-end rendering
def unit_excel_workbooks():
    def run(ctx):
        import tempfile, shutil, datetime, random, xlsxwriter
        from cutplace import rowio, errors
        tmp = tempfile.mkdtemp(prefix="vf_xlsx_")
        rng = random.Random(ctx.seed)
        res = []
        try:
            def expected_number(v):
                f = float(v); t = repr(f)
                return t[:-2] if t.endswith(".0") else t
            def build(path, sheets):
                wb = xlsxwriter.Workbook(path); dfmt = wb.add_format({"num_format": "yyyy-mm-dd hh:mm:ss"}); tfmt = wb.add_format({"num_format": "hh:mm:ss"})
                for rows in sheets:
                    ws = wb.add_worksheet()
                    for y, row in enumerate(rows):
                        for x, (kind, v) in enumerate(row):
                            if kind == "s": ws.write_string(y, x, v)
                            elif kind == "n": ws.write_number(y, x, v)
                            elif kind == "b": ws.write_boolean(y, x, v)
                            elif kind == "d": ws.write_datetime(y, x, v, dfmt)
                            elif kind == "t": ws.write_datetime(y, x, v, tfmt)
                wb.close()
            def want(cell):
                kind, v = cell
                if kind == "s": return v
                if kind == "n": return expected_number(v)
                if kind == "b": return "1" if v else "0"
                if kind == "d": return (v + datetime.timedelta(microseconds=500000)).replace(microsecond=0).strftime("%Y-%m-%d %H:%M:%S")       # whole seconds, rounded to the nearest
                if kind == "t": return (datetime.datetime.combine(datetime.date(2000, 1, 1), v) + datetime.timedelta(microseconds=500000)).strftime("%H:%M:%S")
            numbers = [12.05, 0.05, -1.003, 9.0625, 100.0625, 0, 1, -1, 7, 10, 255, 2**31, 2**53, -2**53, 0.5, -0.25, 1.5, 3.14159, 1e-7, 1.25e10, 123456789.125, 0.1, 2.675, 1e21, 5e-324, 1.5e300]
            # the producer (xlsxwriter) stores numbers with 16 significant digits ('%.16G'): random values are first rounded to what the file can hold
            if ctx.thorough: numbers += [float("%.16G" % rng.uniform(-1e6, 1e6)) for _ in range(300)] + [float("%.16G" % float(rng.randint(-2**53, 2**53))) for _ in range(300)]
            dates = [datetime.datetime(1900, 3, 1, 0, 0, 0), datetime.datetime(1999, 12, 31, 23, 59, 59), datetime.datetime(2024, 2, 29, 12, 0, 1), datetime.datetime(9999, 12, 31, 0, 0, 0), datetime.datetime(2001, 1, 1, 0, 0, 0),
                     datetime.datetime(2020, 3, 4, 12, 30, 15, 250000), datetime.datetime(2020, 3, 4, 18, 0, 0, 750000)]       # serial numbers with a sub-second part
            if ctx.thorough: dates += [datetime.datetime(1900, 3, 1) + datetime.timedelta(days=rng.randint(0, 2958000), seconds=rng.randint(0, 86399)) for _ in range(300)]
            times = [datetime.time(0, 0, 1), datetime.time(12, 30, 0), datetime.time(23, 59, 59), datetime.time(1, 23, 45, 200000), datetime.time(6, 0, 0, 400000)] + ([datetime.time(rng.randint(0, 23), rng.randint(0, 59), rng.randint(0, 59)) for _ in range(200)] if ctx.thorough else [])
            strings = ["", "a", " a ", "ä€", "=1+1", "1.0", "x\ny", "<&>\"'"]
            cells = [("s", s) for s in strings] + [("n", n) for n in numbers] + [("b", True), ("b", False)] + [("d", d) for d in dates] + [("t", t) for t in times]
            def cases():
                for nsheets in (1, 2, 3):
                    sheets = []
                    for k in range(nsheets):
                        rows = [[cells[(i * 3 + j + k * 5) % len(cells)] for j in range(1 + (i + k) % 4)] for i in range(len(cells) // 2)]
                        sheets.append(rows)
                    for want_sheet in range(1, nsheets + 1):
                        yield (nsheets, sheets, want_sheet)
            n = [0]
            def check(c):
                nsheets, sheets, k = c
                n[0] += 1; path = os.path.join(tmp, "w%d.xlsx" % n[0]); build(path, sheets)
                try: got = list(rowio.excel_rows(path, k))
                except Exception as e: return {"expected": "rows of sheet %d" % k, "observed": repr(e)}
                rows = sheets[k - 1]; width = max(len(r) for r in rows)
                exp = [[want(c_) for c_ in r] + [""] * (width - len(r)) for r in rows]
                if got != exp:
                    for y, (g, e_) in enumerate(zip(got, exp)):
                        if g != e_: return {"expected": "row %d of sheet %d: %r" % (y + 1, k, e_), "observed": repr(g)}
                    return {"expected": "%d rows" % len(exp), "observed": "%d rows" % len(got)}
                return None
            res.append(sweep("C16/workbooks/all cell kinds x 1-3 sheets x requested sheet", cases(), check, "audit",
                             "workbooks written with xlsxwriter: %d cell values (strings, integers up to 2^53, floats, booleans, dates 1900-03-01..9999-12-31, pure times) in ragged rows, 1-3 sheets, each sheet requested" % len(cells),
                             describe=lambda c: {"sheets": c[0], "requested_sheet": c[2]}, function="rowio.excel_rows + _excel_cell_value", unit="C16.workbooks", props=["C16"]))
            # the Sheet property through the validating reader
            def sheet_cases():
                for k in (None, 1, 2, 3, 9, 10, 11, 12): yield k
            def sheet_check(k):
                from cutplace import interface, validio
                n[0] += 1; path = os.path.join(tmp, "s%d.xlsx" % n[0]); build(path, [[[("s", "sheet%d" % i), ("s", "x")]] for i in range(1, 13)])
                cid = interface.Cid(); cid.read("cid", [["d", "format", "excel"]] + ([["d", "sheet", str(k)]] if k else []) + [["f", "a"], ["f", "b"]])
                got = list(validio.rows(cid, path)); want = [["sheet%d" % (k or 1), "x"]]
                return None if got == want else {"expected": want, "observed": got}
            res.append(sweep("C16/workbooks/the Sheet property selects the sheet the validating reader reads", sheet_cases(), sheet_check, "audit", "12-sheet workbook x Sheet property {unset, 1, 2, 3, 9, 10, 11, 12} through validio.rows",
                             describe=lambda k: {"sheet_property": k}, function="validio.Reader._raw_rows + rowio.excel_rows", unit="C16.workbooks", props=["C16"]))
            # date cells xlrd calls ambiguous (recorded finding K-12): January / February 1900 and times that round up to midnight
            known12 = findings.is_known("K-12", "C16"); k12 = []
            def amb_cases():
                yield ("d", datetime.datetime(1900, 2, 15, 0, 0, 0)); yield ("d", datetime.datetime(1900, 1, 1, 12, 0, 0)); yield ("t", datetime.time(23, 59, 59, 700000))
            def amb_check(cell):
                n[0] += 1; path = os.path.join(tmp, "a%d.xlsx" % n[0]); build(path, [[[("s", "before"), cell]]])
                try: got = list(rowio.excel_rows(path))
                except errors.DataFormatError as e:
                    if known12: k12.append((cell, str(e)[-60:])); return None
                    return {"expected": "a row ['before', <date or time text>]", "observed": "DataFormatError: %s" % e}
                import re
                ok = len(got) == 1 and got[0][0] == "before" and re.fullmatch(r"\d{4}-\d\d-\d\d \d\d:\d\d:\d\d|\d\d:\d\d:\d\d", got[0][1])
                return None if ok else {"expected": "['before', 'YYYY-MM-DD hh:mm:ss' or 'hh:mm:ss']", "observed": got}
            res.append(sweep("C16/workbooks/date cells of January and February 1900, times rounding up to midnight", amb_cases(), amb_check, "audit", "3 cells xlrd calls ambiguous" + (" (recorded finding K-12)" if known12 else ""),
                             describe=lambda c: {"cell": repr(c)}, function="rowio._excel_cell_value", unit="C16.workbooks", props=["C16"]))
            if k12:
                res.append(Result("C16/K-12 witness: a date cell xlrd calls ambiguous makes the whole workbook unreadable", "audit", FAILED, "native", finding="K-12", cases=len(k12), props=["C16"], detail=repr(k12[0])[:300],
                                  replay={"verdict": "confirmed", "input": repr(k12[0][0]), "expected": "'1900-02-15 00:00:00' (a documented date text)", "observed": "DataFormatError ... " + k12[0][1]}))
            # a string formula stored without its cached value (as some producers write it): an empty text, not the text 'None'
            def nov_check(_):
                import zipfile
                src = os.path.join(tmp, "nov_src.xlsx"); dst = os.path.join(tmp, "nov.xlsx")
                wb = xlsxwriter.Workbook(src); ws = wb.add_worksheet(); ws.write_string(0, 0, "a"); ws.write_formula(0, 1, '=A1&"x"', None, "ZZZCACHED"); ws.write_string(0, 2, "c"); wb.close()
                zin = zipfile.ZipFile(src)
                with zipfile.ZipFile(dst, "w") as zout:
                    for info in zin.infolist():
                        blob = zin.read(info.filename)
                        if info.filename.endswith("sheet1.xml"):
                            if b"<v>ZZZCACHED</v>" not in blob: return {"expected": "the cached value in the sheet XML (test construction)", "observed": blob[:200]}
                            blob = blob.replace(b"<v>ZZZCACHED</v>", b"")
                        zout.writestr(info, blob)
                got = list(rowio.excel_rows(dst))
                return None if got == [["a", "", "c"]] else {"expected": [["a", "", "c"]], "observed": got}
            res.append(sweep("C16/workbooks/a string formula without a cached value is an empty text", [0], nov_check, "audit", "one hand-edited workbook", function="rowio._excel_cell_value", unit="C16.workbooks", props=["C16"]))
            # xlsx row writer round trip
            def rt_cases():
                alpha = ["", "a", "b c", "=x", "ä", "1", "0.5", "x\ny", "<&>"]
                for nrows in range(1, 5):
                    for ncols in range(1, 4):
                        yield [[alpha[(r * 3 + c_ * 2 + nrows) % len(alpha)] for c_ in range(ncols)] for r in range(nrows)]
                yield [["x", "y", "z"], ["1", "2", "3"]]
                yield "write_rows", [["x", "y"], ["1", "2"], ["", "z"]]          # the same through write_rows()
                # what the file format cannot hold (a cell of more than 32767 characters, more than 16384 columns) is refused, never cut off silently
                yield [["a" * 32767, "b"]]
                yield [["a" * 32768, "b"]]
                yield [["c"] * 16384]
                yield [["c"] * 16385]
                # a refused row in the middle leaves no trace: the rows accepted before and after it read back as written
                yield "refusals", [["a1", "b1", "c1"], ["a2", "x" * 40000, "c2"], ["a3", "b3", "c3"], ["a4", "caf\udce9", "c4"], ["a5", "b5", "c5"]]
                # items that are no strings and cannot be stored as a number (nan, a number beyond float, a list, None), and text xlsxwriter would take for rich text markup
                yield "refusals", [["a1", "b1", "c1"], ["a2", float("nan"), "c2"], ["a3", 10 ** 400, "c3"], ["a4", "<r>hello</r>", "c4"], ["a5", "b5", "c5"], ["a6", [1], "c6"], ["a7", None, "c7"], ["a8", "<r>&</r>", "c8"], ["a9", "b9", "c9"]]
                import decimal as _decimal
                yield "refusals", [["a1", "b1", "c1"], ["a2", datetime.datetime(2020, 1, 2, 3, 4, 5, tzinfo=datetime.timezone.utc), "c2"], ["a3", "b3", "c3"], ["a4", datetime.time(3, 4, 5, tzinfo=datetime.timezone.utc), "c4"],
                                   ["a5", _decimal.Decimal("sNaN"), "c5"], ["a6", float("inf"), "c6"], ["a7", "b7", "c7"]]
                # ... and a number whose digits Python refuses to print (more than 4300): the refusal has to be sayable
                yield "refusals", [["a1", "b1", "c1"], ["a2", 10 ** 5000, "c2"], ["a3", "b3", "c3"], ["a4", -(10 ** 5000), "c4"], ["a5", "b5", "c5"]]
            def rt_check(table):
                from cutplace import errors
                n[0] += 1; path = os.path.join(tmp, "r%d.xlsx" % n[0])
                try:
                    with rowio.XlsxRowWriter(path) as w:
                        if table[0] == "write_rows": table = table[1]; w.write_rows(table)
                        elif table[0] == "refusals":
                            kept = []
                            for r_ in table[1]:
                                try: w.write_row(r_); kept.append(r_)
                                except errors.DataFormatError: pass
                                except Exception as e_: return {"expected": "row %r written or refused with a DataFormatError" % (r_,), "observed": "%s: %s" % (type(e_).__name__, e_)}
                            if len(kept) != 3: return {"expected": "only rows 1, 3 (or 5) and the last kept", "observed": kept}
                            table = kept
                        else:
                            for r_ in table: w.write_row(r_)
                except errors.DataFormatError: return None        # refused by the writer: nothing claimed to be written
                back = list(rowio.excel_rows(path))
                # trailing all-empty columns/rows are not stored by the xlsx format: compare modulo that padding rule
                width = max(len(r) for r in table)
                exp = [r + [""] * (width - len(r)) for r in table]
                return None if back == exp else {"expected": exp, "observed": back}
            res.append(sweep("C16/workbooks/XlsxRowWriter round trip", rt_cases(), rt_check, "audit", "string tables of 1-4 rows x 1-3 columns over 9 cell texts, write_rows(), cells and rows at / beyond the limits of the file format", function="rowio.XlsxRowWriter + excel_rows", unit="C16.workbooks", props=["C16"]))
            # fault injection: the raise-set assumed for xlrd.open_workbook
            base = os.path.join(tmp, "base.xlsx"); build(base, [[[("s", "a"), ("n", 1)], [("s", "b"), ("n", 2)]]])
            data = open(base, "rb").read()
            escapes = {}
            def fault_cases():
                for cut in range(0, len(data), 64 if not ctx.thorough else 16): yield ("truncate", cut)
                for pos in range(0, len(data), 97 if not ctx.thorough else 23): yield ("flip", pos)
                yield ("text", 0); yield ("empty", 0)
            def fault_check(c):
                kind, pos = c
                blob = {"truncate": data[:pos], "flip": data[:pos] + bytes([data[pos] ^ 0xFF]) + data[pos + 1:], "text": b"a,b\n1,2\n", "empty": b""}[kind]
                n[0] += 1; path = os.path.join(tmp, "f%d.xlsx" % n[0]); open(path, "wb").write(blob)
                try: list(rowio.excel_rows(path))
                except errors.DataFormatError: return None
                except Exception as e:
                    escapes.setdefault(type(e).__name__, (kind, pos, str(e)[:80])); return None
                return None
            r = sweep("C16/workbooks/fault injection (counted)", fault_cases(), fault_check, "audit", "base workbook truncated at every 64th byte, one byte flipped at every 97th byte, a CSV file, an empty file", function="rowio.excel_rows", unit="C16.workbooks", props=["C06", "C10", "C16"])
            res.append(r)
            if escapes:
                res.append(Result("C16/workbooks/a broken .xlsx lets %s escape excel_rows" % ", ".join(sorted(escapes)), "audit", FAILED, "native", finding=None, cases=len(escapes), props=["C06", "C10", "C16"],
                                  detail=repr(escapes), replay={"verdict": "confirmed", "input": "corrupted workbook: %r" % (escapes,), "expected": "DataFormatError", "observed": ", ".join(sorted(escapes))}))
            return res
        finally:
            shutil.rmtree(tmp, ignore_errors=True)
    return NativeUnit("C16.workbooks", "bounded workbook audit: renderings, requested sheet, xlsx writer round trip, fault injection", ["C16", "C06", "C10"], run, kind="audit", timeout=1800)
