"""Sidecar contracts for cutplace/interface.py: Cid.read, add_data_format_row, add_check_row, _create_class, field_names_and_lengths;
fields.validated_field_name (C09, C20, C13, C17)."""
import io, itertools, keyword, string, z3
from .common import *
from vf import findings
from vf.unit import ProofUnit, NativeUnit, Oracle, sweep
from vf.model import *

SROW = SeqList(STR)
DFO = Abs("DataFormatObj")


def lower_of(ex, z): return ex.absfun_s("str_lower", [z3.StringSort()], z3.StringSort())(z)
def strip_of(ex, z): return ex.absfun_s("str_strip", [z3.StringSort()], z3.StringSort())(z)


def new_location(st, line=0, cell=0):
    loc = Ref("Location"); st.heap[loc.oid] = {"file_path": "<cid>", "_line": line, "_column": 0, "_cell": cell, "_sheet": 0, "_has_column": False, "_has_cell": True, "_has_sheet": False}
    return loc


# ---------------------------------------------------------------- Cid.read : row dispatch, row number in every error, final completeness checks
def unit_cid_read():
    def setup(ex, st):
        rows, c = fresh(UFList(SROW), "rows"); st.pc.extend(c)
        self = Ref("Cid")
        st.heap[self.oid] = {"_cid_path": None, "_data_format": Sym(Opt(DFO), sort_of(Opt(DFO)).none), "_field_names": fresh(UFList(STR), "names0")[0], "_location": None}
        st.pc.append(st.heap[self.oid]["_field_names"].length == 0)
        # the rows come from a row reader: a CID file that cannot be parsed makes it raise a DataFormatError instead of delivering row number fail_at + 1
        def raise_fault(ex_, s):
            m = fresh(STR, "msg")[0]; s.pc.append(z3.Length(m.z) > 0)
            floc = Ref("Location"); s.heap[floc.oid] = {"file_path": "<cid>", "_line": fresh(INT, "fline")[0], "_column": 0, "_cell": 0, "_sheet": 0, "_has_column": False, "_has_cell": False, "_has_sheet": False}
            for s2, e in raise_new(ex_, s, "DataFormatError", [m, floc]):
                s2.ghost["container_fault"] = True; s2.ghost["fault_loc"] = floc; yield s2, e
        st.frames[-1].env.update({"self": self, "cid_path": "<cid>", "rows": FallibleIter(rows, fresh(INT, "fail_at")[0], raise_fault)})
        st.ghost.update({"rows": rows, "all_rows": rows, "this": self, "d_rows": 0, "f_rows": 0, "c_rows": 0, "container_fault": False, "fault_loc": None})
    def row_type(ex, st):
        i = lift(st.frames[-1].env["_i0"]).z; r = st.ghost["rows"].at(i)
        return strip_of(ex, lower_of(ex, r[0])), r
    def padded(r):
        e = z3.Unit(z3.StringVal("")); six = z3.Concat(e, e, e, e, e, e)
        tail = z3.Extract(r, 1, z3.If(z3.Length(r) - 1 < 0, 0, z3.Length(r) - 1))
        return z3.Extract(z3.Concat(tail, six), 0, 6)
    def add_row_model(kind, letter):
        def m(ex, st, recv, args, kw):
            rt, r = row_type(ex, st)
            ex.obligations.append(Obligation("row-marker-%s-(case-and-blanks-ignored)-selects-the-%s-handler-which-gets-cells-2..7-padded-with-empty-strings" % (letter.upper(), kind), st.pc,
                                             z3.And(z3.Length(r) > 0, rt == letter, lift(args[0]).z == padded(r)), "protocol", props=["C09"]))
            loc = st.heap[st.ghost["this"].oid]["_location"]
            ex.obligations.append(Obligation("location-points-at-the-row-being-processed", st.pc, lift(st.heap[loc.oid]["_line"]).z == lift(st.frames[-1].env["_i0"]).z, "protocol", props=["C09"]))
            st.ghost[kind] = Sym(INT, G(st, kind) + 1)
            o = st.heap[st.ghost["this"].oid]
            if kind == "d_rows":
                o["_data_format"] = fresh(Opt(DFO), "df")[0]; st.pc.append(z3.Not(sort_of(Opt(DFO)).is_none(o["_data_format"].z)))
            if kind == "f_rows":
                nl, c = fresh(UFList(STR), "names"); st.pc.extend(c); st.pc.append(nl.length == o["_field_names"].length + 1); o["_field_names"] = nl
            sb = st.copy()
            # the handlers raise InterfaceError located at (a copy of) the reader's current location
            m_ = fresh(STR, "msg")[0]; sb.pc.append(z3.Length(m_.z) > 0)
            yield from raise_new(ex, sb, "InterfaceError", [m_, loc])
            yield st, None
        return m
    def m_validate(ex, st, recv, args, kw):
        sb = st.copy(); m_ = fresh(STR, "msg")[0]; sb.pc.append(z3.Length(m_.z) > 0); sb.ghost["from_validate"] = True
        yield from raise_new(ex, sb, "InterfaceError", [m_])
        yield st, None
    def known_upto(ex, st, k):
        """every row before k is empty, has an empty marker, or a marker D / F / C (after lower-casing and stripping)"""
        rows = st.ghost["rows"]; j = z3.Int("j!km"); r = rows.at(j); rt = strip_of(ex, lower_of(ex, r[0]))
        return Sym(BOOL, z3.ForAll([j], z3.Implies(z3.And(0 <= j, j < lift(k).z), z3.Or(z3.Length(r) == 0, rt == "", rt == "d", rt == "f", rt == "c"))))
    def make(ctx):
        c = Contract("interface.Cid.read", setup,
                returns=[Clause(lambda ex, st: Sym(BOOL, z3.And(z3.Not(sort_of(Opt(DFO)).is_none(lift(st.heap[st.ghost["this"].oid]["_data_format"]).z)), st.heap[st.ghost["this"].oid]["_field_names"].length > 0)),
                                "accepted-only-with-a-data-format-and-at-least-one-field", props=["C09"]),
                         Clause("d_rows >= 1 and f_rows >= 1", "accepted-only-after-a-D-row-and-an-F-row", props=["C09"]),
                         Clause("known_upto(len(all_rows))", "accepted-only-if-every-row-marker-is-empty-or-D-F-C", props=["C09"])],
                raises={"InterfaceError": [Clause(lambda ex, st: Sym(BOOL, z3.Or((z3.And(z3.BoolVal(bool(st.ghost.get("container_fault"))), lift(st.heap[st.heap[st.ghost["__exc__"].oid]["_location"].oid]["_line"]).z == lift(st.heap[st.ghost["fault_loc"].oid]["_line"]).z)
                                                   if st.ghost.get("container_fault") and st.heap[st.ghost["__exc__"].oid].get("_location") is not None else z3.BoolVal(False)),        # a file that cannot be parsed: the reader's own location (no exemption for the contradictions DataFormat.validate() finds)
                                                  z3.And(z3.BoolVal(st.ghost["__exc__"] is not None), lift(st.heap[st.heap[st.ghost["__exc__"].oid]["_location"].oid]["_line"]).z == lift(st.frames[-1].env.get("_i0", 0)).z)
                                                  if st.heap[st.ghost["__exc__"].oid].get("_location") is not None else z3.BoolVal(False))),
                                                  "every-rejection-carries-the-number-of-the-offending-row-(the-end-of-the-CID-for-completeness-errors,-the-reader's-location-for-a-file-that-cannot-be-parsed)", props=["C09"])]},
                loops={0: LoopSpec(invariants=["this._location._line == _i0", "known_upto(_i0)", "iff(this._data_format is None, d_rows == 0)", "len(this._field_names) == f_rows", "d_rows >= 0 and f_rows >= 0"],
                                   havoc={"row": SROW, "row_type": STR, "row_data": SROW, "this._data_format": Opt(DFO), "this._field_names": UFList(STR), "this._location._line": INT, "this._location._cell": INT, "this._location._column": INT},
                                   ghost_havoc={"d_rows": INT, "f_rows": INT, "c_rows": INT})},
                expect=["return", "InterfaceError"], n_loops=1, raises_only_props=["C09", "C10"])
        return {"contract": c, "callees": {"ref:Cid.add_data_format_row": add_row_model("d_rows", "d"), "ref:Cid.add_field_format_row": add_row_model("f_rows", "f"), "ref:Cid.add_check_row": add_row_model("c_rows", "c"),
                                           "abs:DataFormatObj.validate": AbsContract(m_validate)}, "spec_functions": {"known_upto": known_upto},
                "assumptions": ["add_data_format_row / add_field_format_row / add_check_row are used through their contracts: they either succeed or raise an InterfaceError located at the reader's current location",
                                "A-STR: lower() / strip() uninterpreted; rows are arbitrary sequences of strings (cells beyond the 7th are never read: the handlers get exactly cells 2..7)"]}
    return ProofUnit("interface.Cid.read", "Cid.read: row dispatch on the (case-insensitive, blank-stripped) marker, empty rows / markers ignored, unknown marker refused, row number in every error, completeness checks", ["C09"], make, None)


# =====================================================================================================================
# bounded stand-in: meaning-preserving rewrites and a one-defect catalogue against Cid.read (C09)
# =====================================================================================================================
def base_cids():
    """valid CIDs as row lists: all formats, all field types, 0-2 checks"""
    fields_any = [["f", "id", "17", "", "1...5", "Integer", "0...99999"], ["f", "name", "ab", "x", "...10", "Text", ""], ["f", "kind", "a", "", "", "Choice", "a, b"],
                  ["f", "amount", "1.5", "", "", "Decimal", "0...100"], ["f", "born", "31.12.2020", "", "10", "DateTime", "DD.MM.YYYY"], ["f", "code", "ab1", "x", "", "Pattern", "a?*"],
                  ["f", "rx", "a1", "", "", "RegEx", "a[0-9]"], ["f", "const", "k", "", "", "Constant", "k"]]
    checks = [["c", "id must be unique", "IsUnique", "id"], ["c", "few kinds", "DistinctCount", "kind < 3"]]
    yield "delimited-all", [["d", "format", "delimited"], ["d", "header", "1"], ["d", "item delimiter", ";"], ["d", "encoding", "utf-8"]] + fields_any + checks
    yield "delimited-min", [["d", "format", "delimited"], ["f", "id"]]
    # names that are ordinary identifiers (soft keywords, builtins, dunder-free underscores) are valid field names
    yield "ordinary-names", [["d", "format", "delimited"], ["f", "type"], ["f", "match"], ["f", "case"], ["f", "print"], ["f", "list"], ["f", "a_1"], ["f", "Z"], ["c", "u", "IsUnique", "type, match"]]
    yield "csv", [["d", "format", "csv"], ["f", "id", "", "", "", "Integer"], ["f", "kind"], ["c", "u", "IsUnique", "id, kind"]]
    yield "fixed", [["d", "format", "fixed"], ["d", "line delimiter", "lf"], ["f", "id", "00017", "", "5", "Integer", ""], ["f", "name", "abc", "x", "3", "Text", ""], ["f", "amount", "", "", "8", "Decimal", ""], ["c", "u", "IsUnique", "id"]]
    yield "excel", [["d", "format", "excel"], ["d", "sheet", "2"]] + fields_any[:4] + checks[:1]
    yield "ods", [["d", "format", "ods"]] + fields_any[:3] + checks


def describe_cid(cid):
    df = cid.data_format
    return {"format": {k: v for k, v in sorted(df.__dict__.items()) if k not in ("_is_valid", "_VALID_LINE_DELIMITER_TEXTS", "_allowed_characters")},
            "fields": [(type(f).__name__, f.field_name, f.is_allowed_to_be_empty, str(f.length), f.rule, f.example) for f in cid.field_formats],
            "checks": [(type(cid.check_map[n]).__name__, n, cid.check_map[n].rule.strip()) for n in cid.check_names]}


def rewrites(rows):
    yield "comment rows", [["", "a comment"], []] + [x for r in rows for x in (r, ["", "", "note"])] + [[""]]
    yield "trailing cells", [r + [""] * (7 - len(r)) + ["ignored", "cells"] for r in rows]
    yield "marker case and blanks", [[" " + r[0].upper() + " "] + r[1:] for r in rows]
    yield "property names and format value upper case", [[r[0], r[1].upper(), r[2].upper() if r[1] == "format" else r[2]] if r[0] == "d" else r for r in rows]
    yield "blanks around field name, empty mark, type, rule", [[r[0], " " + r[1] + " "] + [(" " + v + " ") if i in (3, 5, 6) and v != "" or i == 3 else v for i, v in enumerate(r) if i >= 2] if r[0] == "f" else r for r in rows]
    yield "empty mark upper case", [[v.upper() if i == 3 else v for i, v in enumerate(r)] if r[0] == "f" else r for r in rows]
    yield "blanks around check rule", [[r[0], r[1], r[2], " " + r[3] + " "] if r[0] == "c" else r for r in rows]
    d = [r for r in rows if r[0] == "d"]; rest = [r for r in rows if r[0] != "d"]
    yield "reordered properties", d[:1] + list(reversed(d[1:])) + rest


def defects(rows):
    """(label, mutated rows, index of the row that must be blamed)"""
    fi = [i for i, r in enumerate(rows) if r[0] == "f"]; ci = [i for i, r in enumerate(rows) if r[0] == "c"]; di = [i for i, r in enumerate(rows) if r[0] == "d"]
    fmt = rows[0][2]
    def put(i, col, v):
        out = [list(r) for r in rows]; out[i] = (out[i] + [""] * 7)[:7]; out[i][col] = v; return out
    def ins(i, row): return rows[:i] + [row] + rows[i:]
    yield "unknown row marker", ins(1, ["q", "x"]), 1
    yield "format missing on the first D row", [["d", "header", "1"]] + rows, 0
    yield "format set twice", ins(1, ["d", "format", fmt]), 1
    yield "unknown format", put(0, 2, "nonsense"), 0
    yield "empty property name", ins(1, ["d", "", "x"]), 1
    yield "unknown property", ins(1, ["d", "colour", "red"]), 1
    yield "property of another format", ins(1, ["d", "sheet" if fmt in ("delimited", "csv", "fixed") else "item delimiter", "1"]), 1
    yield "broken header value", ins(1, ["d", "header", "-1"]), 1
    if fmt in ("delimited", "csv"):
        yield "broken skip initial space value", ins(1, ["d", "skip initial space", "maybe"]), 1
        # contradictions between properties show when the CID is completed: the rejection names the end of the CID
        yield "item delimiter equal to the quote character", rows[:1] + [["d", "item delimiter", "'"], ["d", "quote character", "'"]] + [r for r in rows[1:] if r[1] not in ("item delimiter", "quote character")], len(rows[:1] + [r for r in rows[1:] if r[1] not in ("item delimiter", "quote character")]) + 2
        yield "equal decimal and thousands separators", rows + [["d", "decimal separator", ","], ["d", "thousands separator", ","]], len(rows) + 2
    yield "field before data format", [rows[fi[0]]] + rows, 0
    for i in fi[:3]:
        yield "field name starting with a digit", put(i, 1, "1abc"), i
        yield "field name with a blank inside", put(i, 1, "a b"), i
        yield "field name with a non-ASCII letter", put(i, 1, "näme"), i
        yield "field name starting with a non-ASCII letter", put(i, 1, "änd"), i
        yield "field name starting with a non-ASCII letter-like character", put(i, 1, "ª1"), i
        yield "field name with an Arabic-Indic digit", put(i, 1, "a\u0663"), i
        yield "field name with a superscript digit", put(i, 1, "x\u00b2"), i
        yield "field name with a full-width digit", put(i, 1, "n\uff11"), i
        yield "field name with a circled digit", put(i, 1, "a\u2460"), i
        yield "field name is a keyword", put(i, 1, "class"), i
        yield "field name is a keyword with surrounding blanks", put(i, 1, "  lambda\t"), i
        yield "empty field name", put(i, 1, "  "), i
        yield "empty mark other than X", put(i, 3, "y"), i
        yield "unknown field type", put(i, 5, "NoSuchType"), i
        yield "field type with a blank inside", put(i, 5, "In teger"), i
        yield "broken length", put(i, 4, "1...2...3"), i
        yield "length with lower limit above upper limit", put(i, 4, "5...1"), i
        yield "negative length", put(i, 4, "-3"), i
        if fmt == "fixed":
            yield "fixed field without length", put(i, 4, ""), i
            yield "fixed field with a length range", put(i, 4, "1...3"), i
            yield "fixed field with length 0", put(i, 4, "0"), i
            yield "fixed field with two lengths", put(i, 4, "5, 7"), i
            yield "fixed field with two lengths, the larger first", put(i, 4, "7,5"), i
            yield "fixed field with a length and a length range", put(i, 4, "5, 7...9"), i
            yield "fixed field with a length and an open length range", put(i, 4, "2, 4..."), i
    if len(fi) >= 2:
        yield "duplicate field name", put(fi[1], 1, rows[fi[0]][1]), fi[1]
        dup = put(fi[1], 1, rows[fi[0]][1])
        yield "duplicate field name after completely empty rows", dup[:1] + [[], []] + dup[1:], fi[1] + 2
        yield "duplicate field name after comment rows", dup[:1] + [[""], ["", "note"]] + dup[1:], fi[1] + 2
    for i in fi:
        r = (rows[i] + [""] * 7)[:7]
        if r[5] == "Integer": yield "broken integer rule", put(i, 6, "1...x"), i; yield "example outside the rule", put(i, 2, "x17"), i
        if r[5] == "Choice": yield "choice rule with trailing comma", put(i, 6, "a, b,"), i; yield "example not among the choices", put(i, 2, "zzz"), i; yield "example that is a choice only after stripping blanks", put(i, 2, " a"), i
        if r[5] == "Integer" and fmt != "fixed": yield "example of blanks only for an Integer field", put(i, 2, "  "), i
        if r[5] == "Decimal": yield "broken decimal rule", put(i, 6, "1...2...3"), i
        if r[5] == "RegEx": yield "broken regular expression", put(i, 6, "a[0-9"), i
        if r[5] == "Constant": yield "constant with two tokens", put(i, 6, "k k"), i
        if r[5] == "DateTime": yield "example that is no date", put(i, 2, "31.02.2020"), i
        # "an example its own field accepts": the example has to pass every guard of the field (length, allowed characters), not just the rule
        if r[5] in ("Text", "") and r[4] == "...10":
            yield "example longer than the declared length", put(i, 2, "x" * 11), i
            if fmt in ("delimited", "csv"): yield "example with a character outside the allowed characters", ins(1, ["d", "allowed characters", "32...126"])[:i + 1] + [[r[0], r[1], "Müller"] + r[3:]] + [list(x) for x in rows[i + 1:]], i + 1
        if r[5] == "Integer" and r[4] == "1...5" and fmt != "fixed":
            yield "integer example inside the rule but longer than the declared length", [list(x) for x in rows[:i]] + [[r[0], r[1], "1234567", r[3], r[4], r[5], "0...9999999"]] + [list(x) for x in rows[i + 1:]], i
    only_d = [r for r in rows if r[0] == "d"]
    yield "no field at all", only_d, len(only_d)
    if ci:
        yield "check without description", put(ci[0], 1, ""), ci[0]
        yield "check with a description of blanks only", put(ci[0], 1, "  "), ci[0]
        yield "unknown check type", put(ci[0], 2, "NoSuchCheck"), ci[0]
        yield "check rule naming an undeclared field", put(ci[0], 3, "nosuchfield" if rows[ci[0]][2] == "IsUnique" else "nosuchfield < 3"), ci[0]
        yield "check before the fields", rows[:fi[0]] + [rows[ci[0]]] + rows[fi[0]:], fi[0]
        yield "field after a check", rows + [["f", "late"]], len(rows)
        if len(ci) >= 2: yield "duplicate check description", put(ci[1], 1, rows[ci[0]][1]), ci[1]
        if rows[ci[0]][2] == "IsUnique": yield "unique check naming a field twice", put(ci[0], 3, "id, id"), ci[0]; yield "unique check with two commas", put(ci[0], 3, "id,,id"), ci[0]
    for i in ci:
        # (a DistinctCount rule without a comparison, e.g. 'kind' or 'kind + 1', is accepted because 0 == False and 1 == True in Python;
        #  the statement of C09 only demands 'a rule naming only declared fields', so this is noted in DESIGN.md and not part of the catalogue)
        if rows[i][2] == "DistinctCount":
            yield "distinct count rule naming an undeclared field behind 'or'", put(i, 3, "kind < 3 or nosuchfield > 1"), i
            yield "distinct count rule naming another declared field", put(i, 3, "kind < 3 and id > 1"), i
            yield "distinct count rule calling a function", put(i, 3, "kind < 3 or len(kind) > 1"), i
            yield "distinct count rule calling a lambda", put(i, 3, "kind < 3 or (lambda: 1)()"), i
            yield "distinct count rule without a comparison", put(i, 3, "kind"), i
            yield "distinct count rule that is a sum", put(i, 3, "kind + 1"), i
            yield "distinct count rule of thousands of operands", put(i, 3, "kind" + " + 1" * 3000 + " > 0"), i
        if rows[i][2] == "DistinctCount": yield "distinct count rule that is no expression", put(i, 3, "kind <"), i; yield "distinct count rule starting with a number", put(i, 3, "3 < kind"), i


def unit_c09_catalogue():
    def run(ctx):
        from cutplace import interface, errors
        def read(rows):
            c = interface.Cid(); c.read("cid", [list(r) for r in rows]); return c
        def rw_cases():
            for name, rows in base_cids():
                for label, r2 in rewrites(rows): yield (name, label, rows, r2)
        def rw_check(c):
            name, label, rows, r2 = c
            try: a = describe_cid(read(rows))
            except Exception as e: return {"expected": "base CID %s accepted" % name, "observed": repr(e)}
            try: b = describe_cid(read(r2))
            except Exception as e: return {"expected": "CID %s with %s stays accepted" % (name, label), "observed": repr(e)}
            return None if a == b else {"expected": a, "observed": b}
        r1 = sweep("C09/catalogue/meaning-preserving rewrites keep the interface", rw_cases(), rw_check, "bounded", "6 base CIDs (all formats, all 8 field types, 0-2 checks) x 8 rewrites (comment rows, trailing cells, marker case/blanks, name case, surrounding blanks, blanks around check rules, X case, reordered properties)",
                   describe=lambda c: {"cid": c[0], "rewrite": c[1], "rows": c[3]}, function="interface.Cid.read", unit="C09.catalogue", props=["C09"])
        def df_cases():
            for name, rows in base_cids():
                for label, r2, blame in defects(rows): yield (name, label, r2, blame)
        def df_check(c):
            name, label, r2, blame = c
            try: read(r2)
            except errors.InterfaceError as e:
                text = str(e)
                if ("R%dC" % (blame + 1)) not in text and not (e.location is not None and e.location.line == blame):
                    return {"expected": "rejection naming row %d for defect %r" % (blame + 1, label), "observed": text[:200]}
                return None
            except Exception as e: return {"expected": "InterfaceError for defect %r" % label, "observed": repr(e)}
            return {"expected": "CID %s with defect %r rejected at row %d" % (name, label, blame + 1), "observed": "accepted"}
        r2_ = sweep("C09/catalogue/one structural defect at every applicable row is rejected at that row", df_cases(), df_check, "bounded", "6 base CIDs x a catalogue of ~50 structural defects applied at every applicable row",
                    describe=lambda c: {"cid": c[0], "defect": c[1], "rows": c[2], "row_to_blame": c[3] + 1}, function="interface.Cid.read", unit="C09.catalogue", props=["C09"])
        # checks added through the programmatic interface (Cid.add_check) are registered after the ones of the CID, in order
        def ac_cases():
            for name, rows in base_cids():
                if any(r[0] == "f" and r[1] == "id" for r in rows): yield (name, rows)
        def ac_check(c):
            from cutplace import checks
            name, rows = c; cid = read(rows); before = list(cid.check_names)
            try:
                cid.add_check(checks.IsUniqueCheck("added later", "id", cid.field_names))
                cid.add_check(checks.DistinctCountCheck("added last", "id < 100", cid.field_names))
            except Exception as e: return {"expected": "Cid.add_check registers the check", "observed": repr(e)}
            got = list(cid.check_names)
            if got != before + ["added later", "added last"] or list(cid.check_map) != got: return {"expected": before + ["added later", "added last"], "observed": got}
        r3 = sweep("C09/catalogue/checks added with Cid.add_check are registered in order", ac_cases(), ac_check, "bounded", "the base CIDs with a field 'id' x two added checks", describe=lambda c: {"cid": c[0]},
                   function="interface.Cid.add_check", unit="C09.catalogue", props=["C09", "C20"])
        # a plug-in check (or field format) that refuses its rule without saying where: the rejection still names the row
        def nl_cases():
            yield "check"; yield "field"
        def nl_check(kind):
            from cutplace import checks, fields
            class NoLocationCheck(checks.AbstractCheck):
                def __init__(self, description, rule, available_field_names, location=None):
                    super().__init__(description, rule, available_field_names, location)
                    if rule == "bad": raise errors.InterfaceError("rule must be good")
            class NoLocationFieldFormat(fields.AbstractFieldFormat):
                def __init__(self, field_name, is_allowed_to_be_empty, length, rule, data_format):
                    super().__init__(field_name, is_allowed_to_be_empty, length, rule, data_format, empty_value="")
                    if rule == "bad": raise errors.InterfaceError("rule must be good")
                def validated_value(self, value): return value
            rows = [["d", "format", "delimited"], ["f", "a"], ["f", "b", "", "", "", "NoLocation", "bad" if kind == "field" else "good"], ["c", "x", "NoLocation", "bad" if kind == "check" else "good"]]
            blame = 3 if kind == "check" else 2
            try: read(rows)
            except errors.InterfaceError as e:
                return None if ("R%dC" % (blame + 1)) in str(e) else {"expected": "rejection naming row %d" % (blame + 1), "observed": str(e)[:160]}
            return {"expected": "rejected", "observed": "accepted"}
        r4 = sweep("C09/catalogue/a plug-in class refusing its rule without a location is still reported at its row", nl_cases(), nl_check, "bounded", "a check and a field format defined for the purpose", describe=lambda k: {"plug-in": k},
                   function="interface.Cid.add_check_row / add_field_format_row", unit="C09.catalogue", props=["C09", "C20"])
        # a CID whose file cannot be parsed is a rejected CID: an interface error, not a data error
        def broken_cases():
            yield ("csv with an unterminated quote", "b1.csv", b'd,format,delimited\nf,"id\n'); yield ("csv that is not UTF-8", "b2.csv", b"d,format,delimited\nf,n\xe4me\n")
            yield ("non-zip ods", "b3.ods", b"this is no zip archive"); yield ("damaged xlsx", "b4.xlsx", b"PK\x03\x04 damaged"); yield ("zero-byte ods", "b5.ods", b"")
        def broken_check(c):
            import tempfile, shutil, os
            label, name, blob = c; d = tempfile.mkdtemp(prefix="vf_c09_")
            try:
                p_ = os.path.join(d, name); open(p_, "wb").write(blob)
                try: interface.Cid(p_)
                except errors.InterfaceError as e: return None
                except Exception as e: return {"expected": "InterfaceError (the problem is in the CID)", "observed": "%s: %s" % (type(e).__name__, str(e)[:120])}
                return {"expected": "InterfaceError", "observed": "accepted"}
            finally: shutil.rmtree(d, ignore_errors=True)
        r5 = sweep("C09/catalogue/a CID file that cannot be parsed is refused with an interface error", broken_cases(), broken_check, "bounded", "5 damaged CID files (csv, ods, xlsx)", describe=lambda c: {"cid file": c[0]},
                   function="interface.Cid.__init__ / read", unit="C09.catalogue", props=["C09", "C10"])
        # an example is checked when its field row is read, with the data format as it is then (recorded finding K-15): property rows that follow can turn an accepted example into one the finished field rejects, and the other way round
        known15 = findings.is_known("K-15", "C09"); k15 = []
        def ex_cases():
            yield ("accepted although the finished field rejects it", [["d", "format", "delimited"], ["f", "amount", "1.5", "", "", "Decimal"], ["d", "decimal separator", ","]], False)
            yield ("refused although the finished field accepts it", [["d", "format", "delimited"], ["f", "amount", "1,5", "", "", "Decimal"], ["d", "decimal separator", ","]], True)
            yield ("accepted although a later allowed-characters row excludes it", [["d", "format", "delimited"], ["f", "name", "M\u00fcller"], ["d", "allowed characters", "32...126"]], False)
            yield ("control: property row first, example valid", [["d", "format", "delimited"], ["d", "decimal separator", ","], ["f", "amount", "1,5", "", "", "Decimal"]], True)
            yield ("control: property row first, example invalid", [["d", "format", "delimited"], ["d", "decimal separator", ","], ["f", "amount", "1.5", "", "", "Decimal"]], False)
        def ex_check(c):
            label, rows, want = c
            try: read(rows); got = True
            except errors.InterfaceError: got = False
            if got == want: return None
            if known15 and not label.startswith("control"): k15.append((label, rows)); return None
            return {"expected": "CID %s" % ("accepted" if want else "refused"), "observed": "accepted" if got else "refused"}
        r6 = sweep("C09/catalogue/an example is judged by the finished field", ex_cases(), ex_check, "bounded", "3 CIDs with a property row after the field row + 2 controls" + (" (recorded finding K-15)" if known15 else ""),
                   describe=lambda c: {"case": c[0], "rows": c[1]}, function="interface.Cid.add_field_format_row", unit="C09.catalogue", props=["C09", "C11", "C02"])
        # lengths that are not well-formed: overlapping items in either order, empty parts (recorded finding K-18: one order of the overlap and the empty parts are accepted)
        known18 = findings.is_known("K-18", "C09"); k18 = []
        def wf_cases():
            for length, ok_ in (("1...10, 5...6", False), ("5...6, 1...10", False), ("5, 1...10", False), ("1...10, 5", False), ("...3, ...10", False), (",", False), ("1,,2", False), (",1", False),
                                ("1...3, 5...6", True), ("5...6, 1...3", True), ("2", True), ("", True)):
                yield (length, ok_)
        def wf_check(c):
            length, want = c
            try: read([["d", "format", "delimited"], ["f", "a", "", "", length]]); got = True
            except errors.InterfaceError: got = False
            if got == want: return None
            if known18 and got and not want: k18.append(length); return None
            return {"expected": "length %r %s" % (length, "accepted" if want else "refused"), "observed": "accepted" if got else "refused"}
        r7 = sweep("C09/catalogue/a length with overlapping items or empty parts is not well-formed", wf_cases(), wf_check, "bounded", "8 lengths that are not well-formed, 4 that are" + (" (recorded finding K-18)" if known18 else ""),
                   describe=lambda c: {"length": c[0]}, function="ranges.Range.__init__ via interface.Cid.add_field_format_row", unit="C09.catalogue", props=["C09"])
        out_ = [r1, r2_, r3, r4, r5, r6, r7]
        if k18:
            out_.append(Result("C09/K-18 witness: lengths that are not well-formed are accepted (%s)" % "; ".join(repr(x) for x in k18), "bounded", FAILED, "native", finding="K-18", cases=len(k18), props=["C09"], detail=repr(k18),
                               replay={"verdict": "confirmed", "input": {"length": k18[0]}, "expected": "refused (overlapping items / an empty part)", "observed": "accepted"}))
        if k15:
            out_.append(Result("C09/K-15 witness: an example is judged with the data format as it is when its field row is read (%d cases)" % len(k15), "bounded", FAILED, "native", finding="K-15", cases=len(k15), props=["C09"], detail=repr(k15[0])[:300],
                               replay={"verdict": "confirmed", "input": {"rows": k15[0][1]}, "expected": "an example the finished field accepts (or the CID refused)", "observed": k15[0][0]}))
        return out_
    return NativeUnit("C09.catalogue", "bounded stand-in: rewrite and one-defect catalogues end to end against Cid.read", ["C09"], run, kind="bounded")


# =====================================================================================================================
# fields.validated_field_name (character loop), add_data_format_row, add_check_row, _create_class, field_names_and_lengths
# =====================================================================================================================
LETTERS = string.ascii_letters; LDU = string.ascii_letters + string.digits + "_"


def _in(chars, c): return z3.Or(*[c == ch for ch in chars])


def unit_validated_field_name():
    def setup(ex, st):
        s = fresh(STR, "supposed_field_name")[0]
        st.frames[-1].env.update({"supposed_field_name": s, "location": None}); st.ghost["name"] = Sym(STR, strip_of(ex, s.z))
    def m_iskeyword(ex, st, fn, args, kw): yield st, Sym(BOOL, ex.absfun_s("is_keyword", [z3.StringSort()], z3.BoolSort())(lift(args[0]).z))
    def wf_upto(ex, st, k):
        n = G(st, "name"); j = z3.Int("j!wf"); c = z3.SubString(n, j, 1)
        return Sym(BOOL, z3.ForAll([j], z3.Implies(z3.And(0 <= j, j < lift(k).z), z3.If(j == 0, _in(LETTERS, c), _in(LDU, c)))))
    def make(ctx):
        kwz = lambda ex, st: ex.absfun_s("is_keyword", [z3.StringSort()], z3.BoolSort())(G(st, "name"))
        ok_ = lambda ex, st: z3.And(G(st, "name") != "", z3.Not(kwz(ex, st)), wf_upto(ex, st, Sym(INT, z3.Length(G(st, "name")))).z)
        c = Contract("fields.validated_field_name", setup,
                returns=[Clause(lambda ex, st: Sym(BOOL, z3.And(ok_(ex, st), lift(st.ghost["__result__"]).z == G(st, "name"))), "accepted-only-a-non-keyword-made-of-an-ASCII-letter-then-letters-digits-underscores-returned-stripped", props=["C09"])],
                raises={"InterfaceError": [Clause(lambda ex, st: Sym(BOOL, z3.Not(ok_(ex, st))), "rejected-only-if-empty-a-keyword-or-containing-another-character", props=["C09"])]},
                loops={0: LoopSpec(invariants=["wf_upto(_i0)", "is_first_character == (_i0 == 0)"], havoc={"character": STR, "is_first_character": BOOL})},
                expect=["return", "InterfaceError"], n_loops=1, modifies=[], raises_only_props=["C09", "C10"])
        return {"contract": c, "callees": {"builtin:keyword.iskeyword": m_iskeyword}, "spec_functions": {"wf_upto": wf_upto},
                "assumptions": ["A-STR: strip() uninterpreted; keyword.iskeyword trusted; the character sets are read from the imported module (string.ascii_letters / digits / '_')"]}
    return ProofUnit("fields.validated_field_name", "validated_field_name: character loop with invariant; keywords and empty names refused", ["C09"], make, None)


def unit_add_data_format_row():
    def setup_for(has_format):
        def setup(ex, st):
            name = fresh(STR, "name")[0]; value = fresh(STR, "value")[0]
            loc = new_location(st, fresh(INT, "line")[0], 0)
            df = Ref("DataFormat"); st.heap[df.oid] = {"_format": fresh(STR, "fmt")[0]}
            self = Ref("Cid"); st.heap[self.oid] = {"_data_format": df if has_format else None, "_location": loc}
            st.frames[-1].env.update({"self": self, "row_data": [name, value, fresh(STR, "c3")[0], fresh(STR, "c4")[0], fresh(STR, "c5")[0], fresh(STR, "c6")[0]]})
            st.ghost.update({"name": name, "value": value, "this": self, "df0": df if has_format else None, "made": None, "set": None, "loc": loc})
        return setup
    def m_new_df(ex, st, info, args, kw):
        st.ghost["made"] = list(args); d = Ref("DataFormat"); st.heap[d.oid] = {}
        sb = st.copy(); mm = fresh(STR, "m")[0]; sb.pc.append(z3.Length(mm.z) > 0); yield from raise_new(ex, sb, "InterfaceError", [mm, args[1]])
        yield st, d
    def m_set_property(ex, st, recv, args, kw):
        st.ghost["set"] = (recv, list(args))
        sb = st.copy(); mm = fresh(STR, "m")[0]; sb.pc.append(z3.Length(mm.z) > 0); yield from raise_new(ex, sb, "InterfaceError", [mm, args[2]])
        yield st, None
    def make(ctx):
        out = []
        for has_format in (False, True):
            def post(ex, st, has_format=has_format):
                name, value = G(st, "name"), G(st, "value"); low = lower_of(ex, name)
                if not has_format:
                    m = st.ghost["made"]
                    return Sym(BOOL, z3.And(low == "format", name != "", z3.BoolVal(m is not None and len(m) == 2 and m[1] is st.ghost["loc"]), lift(m[0]).z == lower_of(ex, value) if m else z3.BoolVal(False),
                                            z3.BoolVal(st.heap[st.ghost["this"].oid]["_data_format"] is not None and st.ghost["set"] is None)))
                s_ = st.ghost["set"]
                return Sym(BOOL, z3.And(low != "format", name != "", z3.BoolVal(s_ is not None and s_[0] == st.ghost["df0"] and len(s_[1]) == 3 and s_[1][1] is st.ghost["value"] and s_[1][2] is st.ghost["loc"]),
                                        lift(s_[1][0]).z == low if s_ else z3.BoolVal(False), z3.BoolVal(st.ghost["made"] is None)))
            out.append({"contract": Contract("interface.Cid.add_data_format_row", setup_for(has_format),
                            returns=[Clause(post, "first-D-row-must-set-format-(creates-the-data-format-from-the-lower-cased-value)-later-D-rows-set-a-property-by-lower-cased-name-format-only-once", props=["C09", "C11"])],
                            raises={"InterfaceError": [Clause("exc._location is not None and exc._location._line == loc._line", "rejection-located-at-the-current-row", props=["C09"])]},
                            expect=["return", "InterfaceError"], n_loops=0, raises_only_props=["C09", "C10"]),
                        "callees": {"class:DataFormat": m_new_df, "ref:DataFormat.set_property": m_set_property}, "label": "data format already set" if has_format else "first data format row"})
        return out
    return ProofUnit("interface.Cid.add_data_format_row", "add_data_format_row: format first and only once, names case-insensitive, location of errors", ["C09", "C11"], make, None)


def unit_create_class_and_check_row():
    def make(ctx):
        out = []
        # _create_class: lookup of <last dotted part> + suffix in the class map, identical for built-ins and plug-ins
        def setup_cc(ex, st):
            q = fresh(STR, "qualifier")[0]; st.pc.append(z3.Length(q.z) > 0)
            self = Ref("Cid"); st.heap[self.oid] = {"_location": new_location(st)}
            m, c = fresh_ufdict(STR, sort_of(Abs("Class")), "classmap", None, lambda st_, z: Sym(Abs("Class"), z)); st.pc.extend(c)
            st.frames[-1].env.update({"self": self, "name_to_class_map": m, "class_qualifier": q, "class_name_appendix": "FieldFormat", "type_name": "field"})
            st.ghost.update({"q": q, "map": m})
        def m_split_last(ex, st, recv, args, kw): yield st, [Sym(STR, ex.absfun_s("last_dotted_part", [z3.StringSort()], z3.StringSort())(lift(recv).z))]
        key = lambda ex, st: z3.Concat(ex.absfun_s("last_dotted_part", [z3.StringSort()], z3.StringSort())(G(st, "q")), z3.StringVal("FieldFormat"))
        out.append({"contract": Contract("interface.Cid._create_class", setup_cc,
                        returns=[Clause(lambda ex, st: Sym(BOOL, z3.And(st.ghost["map"].has(key(ex, st)), lift(st.ghost["__result__"]).z == st.ghost["map"].val(key(ex, st)))), "resolves-the-class-registered-under-<last-dotted-part>+suffix", props=["C20", "C09"])],
                        raises={"InterfaceError": [Clause(lambda ex, st: Sym(BOOL, z3.Not(st.ghost["map"].has(key(ex, st)))), "unknown-type-refused", props=["C09", "C20"])]},
                        expect=["return", "InterfaceError"], n_loops=0, modifies=[], raises_only_props=["C09", "C10"]),
                    "callees": {"strmethod:split": m_split_last, "_tools.human_readable_list": ModelContract(m_opaque_str)}, "label": "_create_class",
                    "assumptions": ["qualifier.split('.')[-1] is the abstract 'last dotted part' of the qualifier; the class map is an arbitrary dict here; what it holds is the contract of Cid._create_name_to_class_map (every subclass under its plain name, a name borne by one class resolves to it), and which classes exist (__subclasses__, import_plugins) is reflection: bounded stand-ins in C20"]})
        return out
    return ProofUnit("interface.Cid._create_class", "_create_class: name resolution identical for built-ins and plug-ins", ["C20", "C09"], make, None)


def unit_field_names_and_lengths():
    FIELD = Abs("Field"); ITEM = Tup(Opt(INT), Opt(INT))
    def setup(ex, st):
        fields, c = fresh(UFList(FIELD), "fields"); st.pc.extend(c)
        df = Ref("DataFormat"); st.heap[df.oid] = {"_format": "fixed"}
        cid = Ref("Cid"); st.heap[cid.oid] = {"_data_format": df, "_field_formats": fields}
        st.frames[-1].env["fixed_cid"] = cid; st.ghost["fields"] = fields
        # what add_field_format_row establishes for fixed CIDs (C09): exactly one length item with lower == upper >= 1
        st.ghost["width"] = z3.Function("declared_width", sort_of(FIELD), z3.IntSort())
    def absattr_name(ex, st, recv): return Sym(STR, ex.absfun_s("field_name", [sort_of(FIELD)], z3.StringSort())(recv.z))
    def absattr_length(ex, st, recv):
        r = Ref("Range"); w = st.ghost["width"](recv.z)
        items, c = fresh(UFList(ITEM), "items"); st.pc.extend(c); st.pc.append(items.length == 1)
        st.pc.append(items.at(0) == sort_of(ITEM).mk(sort_of(Opt(INT)).some(w), sort_of(Opt(INT)).some(w)))
        st.heap[r.oid] = {"_items": items}; return r
    def upto(ex, st, res, k):
        kk = lift(k).z; j = z3.Int("j!fnl"); T = sort_of(Tup(STR, INT)); fields = st.ghost["fields"]
        if isinstance(res, list): return Sym(BOOL, z3.And(z3.BoolVal(len(res) == 0), kk == 0))
        return Sym(BOOL, z3.And(res.length == kk, z3.ForAll([j], z3.Implies(z3.And(0 <= j, j < kk), res.at(j) == T.mk(ex.absfun_s("field_name", [sort_of(FIELD)], z3.StringSort())(fields.at(j)), st.ghost["width"](fields.at(j)))))))
    def make(ctx):
        c = Contract("interface.field_names_and_lengths", setup,
                returns=[Clause("upto(result, len(fields))", "one-(name,-width)-pair-per-field-in-order-width-is-the-single-exact-length-as-int", props=["C13", "C14", "C04"])], raises={},
                loops={0: LoopSpec(invariants=["upto(result, _i0)"], havoc={"result": UFList(Tup(STR, INT)), "field_format": FIELD, "field_name": STR, "field_length_range": ITEM, "lower": Opt(INT), "upper": Opt(INT), "field_length": INT})},
                expect=["return"], n_loops=1, modifies=[], raises_only_props=["C13", "C10"])
        return {"contract": c, "callees": {"absattr:Field.field_name": absattr_name, "absattr:Field.length": absattr_length}, "spec_functions": {"upto": upto},
                "assumptions": ["precondition established by add_field_format_row for fixed CIDs: every field's length has exactly one item with lower == upper (an int >= 1)"]}
    return ProofUnit("interface.field_names_and_lengths", "field_names_and_lengths: (name, width) per field in order", ["C13", "C14", "C04"], make, None)


# =====================================================================================================================
# Cid.add_check_row (C09, C20)
# =====================================================================================================================
def unit_add_check_row():
    CLS = Abs("Class"); CHK = Abs("CheckObj")
    def setup(ex, st):
        cells = [fresh(STR, "cell%d" % i)[0] for i in range(6)]
        loc = new_location(st, fresh(INT, "line")[0], 0)
        classes, c1 = fresh_ufdict(STR, sort_of(CLS), "check_classes", None, lambda st_, z: Sym(CLS, z)); st.pc.extend(c1)
        checks, c2 = fresh_ufdict(STR, sort_of(CHK), "checks", lambda st_, v: v.z, lambda st_, z: Sym(CHK, z)); st.pc.extend(c2)
        names, c3 = fresh(UFList(STR), "check_names"); st.pc.extend(c3); st.pc.append(names.length == checks.size)
        fnames, c4 = fresh(UFList(STR), "field_names"); st.pc.extend(c4)
        self = Ref("Cid"); st.heap[self.oid] = {"_location": loc, "_check_name_to_class_map": classes, "_check_name_to_check_map": checks, "_check_names": names, "_field_names": fnames}
        st.frames[-1].env.update({"self": self, "possibly_incomplete_items": cells})
        st.ghost.update({"cells": cells, "this": self, "loc": loc, "classes": classes, "checks0": checks, "names0": names, "fnames": fnames, "created": None, "line0": st.heap[loc.oid]["_line"]})
    def m_create_check_class(ex, st, recv, args, kw):
        t = lift(args[0]).z; key = z3.Concat(t, z3.StringVal("Check"))       # the caller has already checked membership of check_type + 'Check'
        yield st, Sym(CLS, st.ghost["classes"].val(key))
    def m_new(ex, st, recv, args, kw):
        st.ghost["created"] = list(args); yield st, Sym(CHK, z3.Const("new_check", sort_of(CHK)))
    def m_init(ex, st, recv, args, kw):
        st.ghost["init_args"] = list(args)
        sb = st.copy(); mm = fresh(STR, "m")[0]; sb.pc.append(z3.Length(mm.z) > 0); yield from raise_new(ex, sb, "InterfaceError", [mm, st.ghost["loc"]])
        yield st, None
    def absattr_location(ex, st, recv): return new_location(st, fresh(INT, "l")[0], 1)
    def make(ctx):
        def picked(ex, st):
            """description / type / rule after dropping empty cells between description and type (the documented hack for merged cells)"""
            return st.ghost.get("triple")
        def post(ex, st):
            o = st.heap[st.ghost["this"].oid]; env = st.frames[-1].env
            desc, typ, rule = lift(env["check_description"]).z, lift(env["check_type"]).z, lift(env["check_rule"]).z
            d0, d1 = st.ghost["checks0"], o["_check_name_to_check_map"]; names1 = o["_check_names"]; names0 = st.ghost["names0"]
            ia = st.ghost.get("init_args")
            built = z3.BoolVal(ia is not None and len(ia) == 4 and ia[2] is st.ghost["fnames"] and ia[3] is st.ghost["loc"])
            if ia is not None and len(ia) == 4: built = z3.And(built, lift(ia[0]).z == desc, lift(ia[1]).z == rule)
            reg = z3.BoolVal(isinstance(d1, UFDict) and isinstance(names1, UFL))
            if isinstance(d1, UFDict) and isinstance(names1, UFL):
                reg = z3.And(d1.has(desc), d1.val(desc) == z3.Const("new_check", sort_of(CHK)), names1.length == names0.length + 1, names1.at(names0.length) == desc)
            strip = ex.absfun_s("str_strip", [z3.StringSort()], z3.StringSort())
            return Sym(BOOL, z3.And(desc == st.ghost["cells"][0].z, desc != "", strip(desc) != "", z3.Not(d0.has(desc)), st.ghost["classes"].has(z3.Concat(typ, z3.StringVal("Check"))), built, reg))
        c = Contract("interface.Cid.add_check_row", setup,
                returns=[Clause(post, "a-check-is-added-only-with-a-new-description-that-is-not-empty-(nor-blanks-only)-and-a-known-type-built-from-(description,-rule,-declared-field-names,-location)-and-registered-in-declaration-order", props=["C09", "C20"])],
                raises={"InterfaceError": [Clause("exc._location is not None and exc._location._line == line0", "rejection-located-at-the-current-row", props=["C09"]),
                                           Clause(lambda ex, st: Sym(BOOL, z3.And(st.heap[st.ghost["this"].oid]["_check_names"].length == st.ghost["names0"].length) if isinstance(st.heap[st.ghost["this"].oid]["_check_names"], UFL) else z3.BoolVal(False)), "a-refused-row-registers-nothing", props=["C09"])]},
                loops={0: Unroll(6)}, expect=["return", "InterfaceError"], n_loops=1, raises_only_props=["C09", "C10"])
        return {"contract": c, "callees": {"ref:Cid._create_check_class": m_create_check_class, "abs:Class.__new__": AbsContract(m_new), "abs:CheckObj.__init__": AbsContract(m_init), "absattr:CheckObj.location": absattr_location,
                                           "_tools.human_readable_list": ModelContract(m_opaque_str)},
                "assumptions": ["check classes are abstract (plug-ins): constructing one either succeeds or raises an InterfaceError (the built-in constructors have their own contracts)",
                                "the class map and the check map are arbitrary dicts (symbolic); A-STR: strip() uninterpreted"]}
    return ProofUnit("interface.Cid.add_check_row", "add_check_row: description non-empty and unique, type known, check built with the declared field names, registered in order; errors at the current row", ["C09", "C20", "C10"], make, None)


def unit_add_check():
    """Cid.add_check: the programmatic twin of a check row - the check is registered under its description, after the ones already there"""
    CHK = Abs("CheckObj")
    def setup(ex, st):
        checks, c2 = fresh_ufdict(STR, sort_of(CHK), "checks", lambda st_, v: v.z, lambda st_, z: Sym(CHK, z)); st.pc.extend(c2)
        names, c3 = fresh(UFList(STR), "check_names"); st.pc.extend(c3); st.pc.append(names.length == checks.size)
        desc = fresh(STR, "description")[0]; st.pc.append(z3.Not(checks.has(desc.z)))            # documented precondition (assert): the description is new
        chk = fresh(CHK, "check_to_add")[0]
        self = Ref("Cid"); st.heap[self.oid] = {"_check_name_to_check_map": checks, "_check_names": names}
        st.frames[-1].env.update({"self": self, "check_to_add": chk}); st.ghost.update({"this": self, "checks0": checks, "names0": names, "desc": desc, "chk": chk})
    def absattr_description(ex, st, recv): return st.ghost["desc"]
    def post(ex, st):
        o = st.heap[st.ghost["this"].oid]; d1, names1, names0 = o["_check_name_to_check_map"], o["_check_names"], st.ghost["names0"]; desc = G(st, "desc")
        if not (isinstance(d1, UFDict) and isinstance(names1, UFL)): return Sym(BOOL, z3.BoolVal(False))
        j = z3.Int("j!ac")
        return Sym(BOOL, z3.And(d1.has(desc), d1.val(desc) == st.ghost["chk"].z, names1.length == names0.length + 1, names1.at(names0.length) == desc,
                                z3.ForAll([j], z3.Implies(z3.And(0 <= j, j < names0.length), names1.at(j) == names0.at(j)))))
    def make(ctx):
        c = Contract("interface.Cid.add_check", setup,
                returns=[Clause(post, "the-check-is-registered-under-its-description-after-the-checks-already-declared-(whose-order-is-kept)", props=["C09", "C20"])],
                raises={}, expect=["return"], n_loops=0, raises_only_props=["C09", "C10", "C20"])
        return {"contract": c, "callees": {"absattr:CheckObj.description": absattr_description},
                "assumptions": ["the check is abstract (any AbstractCheck descendant); its description is new (the method's documented precondition, an assert)"]}
    return ProofUnit("interface.Cid.add_check", "Cid.add_check: registers a check object under its description, in order", ["C09", "C20", "C10"], make, None)


# =====================================================================================================================
# Cid.add_field_format_row (C09, C10, C20)
# =====================================================================================================================
def unit_add_field_format_row():
    CLS = Abs("Class"); FLD = Abs("FieldObj")
    OI = sort_of(Opt(INT))
    def make(ctx):
        out = []
        for fixed in (False, True):
            def setup(ex, st, fixed=fixed):
                cells = [fresh(STR, "cell%d" % i)[0] for i in range(6)]
                loc = new_location(st, fresh(INT, "line")[0], 0)
                fmap, c1 = fresh_ufdict(STR, sort_of(FLD), "field_map", lambda st_, v: v.z, lambda st_, z: Sym(FLD, z)); st.pc.extend(c1)
                imap, c2 = fresh_ufdict(STR, z3.IntSort(), "index_map"); st.pc.extend(c2)
                names, c3 = fresh(UFList(STR), "field_names"); st.pc.extend(c3); formats, c4 = fresh(UFList(FLD), "field_formats"); st.pc.extend(c4)
                st.pc.extend([formats.length == names.length, fmap.size == names.length, imap.size == names.length])
                df = Ref("DataFormat"); st.heap[df.oid] = {"_format": "fixed" if fixed else fresh(STR, "fmt")[0]}
                if not fixed: st.pc.append(lift(st.heap[df.oid]["_format"]).z != "fixed")
                self = Ref("Cid"); st.heap[self.oid] = {"_location": loc, "_data_format": df, "_field_names": names, "_field_formats": formats, "_field_name_to_format_map": fmap, "_field_name_to_index_map": imap,
                                                        "_check_names": [], "_EMPTY_INDICATOR": "x"}
                st.frames[-1].env.update({"self": self, "possibly_incomplete_items": cells})
                lo = fresh(Opt(INT), "len_lower")[0]; hi = fresh(Opt(INT), "len_upper")[0]; has_items = fresh(BOOL, "len_has_items")[0]
                st.pc.append(z3.Implies(z3.And(z3.Not(OI.is_none(lo.z)), z3.Not(OI.is_none(hi.z))), OI.val(lo.z) <= OI.val(hi.z)))      # Range invariant: lower limit <= upper limit
                st.pc.append(z3.Implies(z3.Not(has_items.z), z3.And(OI.is_none(lo.z), OI.is_none(hi.z))))                                # an empty length has no limits
                st.ghost.update({"cells": cells, "this": self, "loc": loc, "line0": st.heap[loc.oid]["_line"], "fmap0": fmap, "names0": names, "added": None, "init_args": None, "example_set": None,
                                 "len_lower": lo, "len_upper": hi, "len_has_items": has_items, "clean_name": None})
            def m_validated_field_name(ex, st, fn, args, kw):
                okb = fresh(BOOL, "name_ok")[0]
                for s2, b in ex.fork(st, okb):
                    if b:
                        n = Sym(STR, strip_of(ex, lift(args[0]).z)); s2.pc.append(z3.Length(n.z) > 0); s2.ghost["clean_name"] = n; yield s2, n
                    else:
                        mm = fresh(STR, "m")[0]; s2.pc.append(z3.Length(mm.z) > 0); yield from raise_new(ex, s2, "InterfaceError", [mm, args[1]])
            def m_split(ex, st, recv, args, kw): yield st, [Sym(STR, ex.absfun_s("type_part", [z3.StringSort()], z3.StringSort())(recv.z))]
            def m_python_name(ex, st, fn, args, kw):
                okb = fresh(BOOL, "type_name_ok")[0]
                for s2, b in ex.fork(st, okb):
                    if b:
                        n = fresh(STR, "type_name")[0]; s2.pc.append(z3.Length(n.z) > 0); yield s2, n
                    else: yield s2, Raise(ex.new_builtin_exc(s2, "NameError", ["not a Python name"]))
            def m_create_class(ex, st, recv, args, kw):
                sb = st.copy(); mm = fresh(STR, "m")[0]; sb.pc.append(z3.Length(mm.z) > 0)
                yield from raise_new(ex, sb, "InterfaceError", [mm, st.ghost["loc"]])
                yield st, fresh(CLS, "field_class")[0]
            def m_new(ex, st, recv, args, kw): yield st, Sym(FLD, z3.Const("new_field", sort_of(FLD)))
            def m_init(ex, st, recv, args, kw):
                st.ghost["init_args"] = list(args)
                sb = st.copy(); sc = st.copy()
                mm = fresh(STR, "m")[0]; sb.pc.append(z3.Length(mm.z) > 0); yield from raise_new(ex, sb, "InterfaceError", [mm])               # error without location: the row's location is attached
                mm2 = fresh(STR, "m")[0]; sc.pc.append(z3.Length(mm2.z) > 0); yield from raise_new(ex, sc, "InterfaceError", [mm2, st.ghost["loc"]])
                yield st, None
            def absattr_length(ex, st, recv):
                r = Ref("Range")
                st.heap[r.oid] = {"_lower_limit": st.ghost["len_lower"], "_upper_limit": st.ghost["len_upper"], "_items": Sym(Opt(Abs("Items")), z3.If(G(st, "len_has_items"), sort_of(Opt(Abs("Items"))).some(z3.Const("items", sort_of(Abs("Items")))), sort_of(Opt(Abs("Items"))).none)),
                                  "_description": fresh(STR, "d")[0]}
                return r
            def absset_example(ex, st, recv, value):
                st.ghost["example_set"] = value
                sb = st.copy(); yield from raise_new(ex, sb, "FieldValueError")
                yield st, None
            def m_add_field_format(ex, st, recv, args, kw):
                st.ghost["added"] = args[0]; st.ghost["cell_at_add"] = st.heap[st.ghost["loc"].oid]["_cell"]; yield st, None
            def post(ex, st, fixed=fixed):
                cells = st.ghost["cells"]; added = st.ghost["added"]; name = st.ghost["clean_name"]; ia = st.ghost["init_args"]
                lo, hi = G(st, "len_lower"), G(st, "len_upper")
                mark = lower_of(ex, strip_of(ex, cells[2].z))
                conj = [z3.BoolVal(added is not None and isinstance(added, Sym) and name is not None and ia is not None)]
                if conj[0] is not None and added is not None and name is not None and ia is not None:
                    conj += [added.z == z3.Const("new_field", sort_of(FLD)), z3.Not(st.ghost["fmap0"].has(name.z)), z3.Or(mark == "", mark == "x"),
                             lift(ia[0]).z == name.z, lift(ia[1]).z == (mark == "x"), lift(ia[2]).z == cells[3].z, lift(ia[3]).z == strip_of(ex, cells[5].z), z3.BoolVal(ia[4] is st.heap[st.ghost["this"].oid]["_data_format"])]
                    if fixed: conj += [G(st, "len_has_items"), z3.Not(OI.is_none(lo)), z3.Not(OI.is_none(hi)), OI.val(lo) == OI.val(hi), OI.val(lo) >= 1]
                    else: conj += [z3.Implies(z3.Not(OI.is_none(lo)), OI.val(lo) >= 0), z3.Implies(z3.Not(OI.is_none(hi)), OI.val(hi) >= 0)]
                    ex_set = st.ghost["example_set"]
                    conj.append(z3.If(cells[1].z != "", z3.BoolVal(ex_set is cells[1]), z3.BoolVal(ex_set is None)))
                return Sym(BOOL, z3.And(*conj))
            out.append({"contract": Contract("interface.Cid.add_field_format_row", setup,
                            returns=[Clause(post, "a-field-is-added-only-with-a-valid-unique-name-an-empty-mark-of-nothing-or-X-a-known-type-a-sound-length-(fixed:-one-exact-length->=-1)-and-an-example-its-own-field-accepts", props=["C09", "C20"])],
                            raises={"InterfaceError": [Clause("exc._location is not None and exc._location._line == line0", "rejection-located-at-the-current-row", props=["C09"]),
                                                       Clause(lambda ex, st: Sym(BOOL, z3.BoolVal(st.ghost["added"] is None)), "a-refused-row-adds-no-field", props=["C09"])]},
                            expect=["return", "InterfaceError"], n_loops=1, raises_only_props=["C09", "C10"]),
                        "callees": {"fields.validated_field_name": ModelContract(m_validated_field_name), "strmethod:split": m_split, "_tools.validated_python_name": ModelContract(m_python_name),
                                    "ref:Cid._create_field_format_class": m_create_class, "abs:Class.__new__": AbsContract(m_new), "abs:FieldObj.__init__": AbsContract(m_init), "absattr:FieldObj.length": absattr_length,
                                    "absset:FieldObj.example": absset_example, "ref:Cid.add_field_format": m_add_field_format, "absattr:Class.__name__": lambda ex, st, recv: fresh(STR, "clsname")[0]},
                        "label": "fixed format" if fixed else "delimited / excel / ods",
                        "assumptions": ["field format classes are abstract (plug-ins): construction succeeds or raises an InterfaceError (with or without a location); its length is a Range with arbitrary limits (lower <= upper); setting the example validates it (FieldValueError on refusal)",
                                        "validated_field_name / validated_python_name / _create_field_format_class / add_field_format are used through their contracts; a dotted type has one part here (the qualifier's last part is what _create_class uses)"]})
        return out
    return ProofUnit("interface.Cid.add_field_format_row", "add_field_format_row: name, duplicate, empty mark, type, construction arguments, length soundness per format, example, errors at the current row", ["C09", "C20", "C10"], make, None)


def unit_add_field_format():
    FIELD = Abs("Field"); FS = sort_of(FIELD)
    def setup(ex, st):
        names, c1 = fresh(UFList(STR), "names"); fmts, c2 = fresh(UFList(FIELD), "formats"); st.pc.extend(c1 + c2)
        imap, c3 = fresh_ufdict(STR, z3.IntSort(), "index_map"); fmap, c4 = fresh_ufdict(STR, FS, "format_map", None, lambda st_, z: Sym(FIELD, z)); st.pc.extend(c3 + c4)
        ff = fresh(FIELD, "field_format")[0]; fname = ex.absfun_s("field_name", [FS], z3.StringSort())
        # data-structure invariant of Cid (established by __init__, preserved here): the four containers are parallel
        j = z3.Int("j!inv"); k = z3.String("k!inv")
        inv = z3.And(fmts.length == names.length, imap.size == names.length, fmap.size == names.length,
                     z3.ForAll([j], z3.Implies(z3.And(0 <= j, j < names.length), z3.And(imap.has(names.at(j)), imap.val(names.at(j)) == j, fmap.has(names.at(j)), fmap.val(names.at(j)) == fmts.at(j), fname(fmts.at(j)) == names.at(j)))),
                     z3.ForAll([k], z3.Implies(imap.has(k), z3.And(0 <= imap.val(k), imap.val(k) < names.length, names.at(imap.val(k)) == k))),
                     z3.ForAll([k], imap.has(k) == fmap.has(k)))
        st.pc.append(inv)
        st.pc.append(z3.Not(fmap.has(fname(ff.z))))        # precondition (asserted by the function, established by add_field_format_row's duplicate test)
        df = Ref("DataFormat"); st.heap[df.oid] = {}
        loc = Ref("Location"); st.heap[loc.oid] = {}
        self = Ref("Cid"); st.heap[self.oid] = {"_data_format": df, "_field_names": names, "_field_formats": fmts, "_field_name_to_index_map": imap, "_field_name_to_format_map": fmap, "_location": loc}
        st.frames[-1].env.update({"self": self, "field_format": ff})
        st.ghost.update({"this": self, "names0": names, "fmts0": fmts, "imap0": imap, "fmap0": fmap, "ff": ff})
    def absattr_name(ex, st, recv): return Sym(STR, ex.absfun_s("field_name", [FS], z3.StringSort())(recv.z))
    def c_appended(ex, st):
        g = st.ghost; o = st.heap[g["this"].oid]; names = o["_field_names"]; fmts = o["_field_formats"]; n0 = g["names0"].length; ff = g["ff"].z
        nm = ex.absfun_s("field_name", [FS], z3.StringSort())(ff); j = z3.Int("j!ap")
        return Sym(BOOL, z3.And(names.length == n0 + 1, fmts.length == n0 + 1, names.at(n0) == nm, fmts.at(n0) == ff,
                                z3.ForAll([j], z3.Implies(z3.And(0 <= j, j < n0), z3.And(names.at(j) == g["names0"].at(j), fmts.at(j) == g["fmts0"].at(j))))))
    def c_maps(ex, st):
        g = st.ghost; o = st.heap[g["this"].oid]; im = o["_field_name_to_index_map"]; fm = o["_field_name_to_format_map"]; n0 = g["names0"].length; ff = g["ff"].z
        nm = ex.absfun_s("field_name", [FS], z3.StringSort())(ff); k = z3.String("k!mp")
        return Sym(BOOL, z3.And(im.has(nm), im.val(nm) == n0, fm.has(nm), fm.val(nm) == ff, im.size == n0 + 1, fm.size == n0 + 1,
                                z3.ForAll([k], z3.Implies(k != nm, z3.And(im.has(k) == g["imap0"].has(k), im.val(k) == g["imap0"].val(k), fm.has(k) == g["fmap0"].has(k), fm.val(k) == g["fmap0"].val(k))))))
    def make(ctx):
        c = Contract("interface.Cid.add_field_format", setup,
                returns=[Clause(c_appended, "the-field-is-appended-last-to-names-and-formats-earlier-fields-keep-their-order", props=["C09"]),
                         Clause(c_maps, "its-name-maps-to-its-position-and-to-the-format-no-other-entry-changes", props=["C09", "C04"])],
                raises={}, expect=["return"], raises_only_props=["C09", "C10"],
                modifies=["Cid._field_names", "Cid._field_formats", "Cid._field_name_to_index_map", "Cid._field_name_to_format_map"])
        return {"contract": c, "callees": {"absattr:Field.field_name": absattr_name},
                "assumptions": ["precondition: the name is not declared yet (add_field_format_row tests this before calling; verified there) and the Cid containers are parallel (representation invariant, preserved by this function)",
                                "dict / list semantics: d[k] = v, list.append (A-ITER)"]}
    return ProofUnit("interface.Cid.add_field_format", "Cid.add_field_format: names / formats / index map / format map stay parallel and order preserving", ["C09", "C04", "C10"], make, None)


def unit_cid_init():
    def mk(with_path):
        def setup(ex, st):
            self = Ref("Cid"); st.heap[self.oid] = {}
            path = fresh(STR, "cid_path")[0] if with_path else None
            st.frames[-1].env.update({"self": self, "cid_path": path})
            st.ghost.update({"this": self, "path": path, "maps": [], "read_args": None, "rows": None, "rows_from": None, "located": 0, "state_at_read": None})
        def m_class_map(ex, st, fn, args, kw):
            m = Ref("ClassMap"); st.heap[m.oid] = {"base": args[0]}; st.ghost["maps"] = st.ghost["maps"] + [(m, args[0])]; yield st, m
        def m_auto_rows(ex, st, fn, args, kw):
            st.ghost["rows_from"] = args[0]
            sb = st.copy(); yield from raise_new(ex, sb, "DataFormatError")
            r = Ref("RowIter"); st.heap[r.oid] = {}; st.ghost["rows"] = r; yield st, r
        def empty_state(o):
            return (o.get("_data_format", 0) is None and o.get("_field_names") == [] and o.get("_field_formats") == [] and o.get("_field_name_to_format_map") == {} and o.get("_field_name_to_index_map") == {}
                    and o.get("_check_names") == [] and o.get("_check_name_to_check_map") == {})
        def m_read(ex, st, recv, args, kw):
            st.ghost["read_args"] = (recv, args[0], args[1]); st.ghost["state_at_read"] = empty_state(st.heap[recv.oid]) and len(st.ghost["maps"]) == 2
            sb = st.copy(); yield from raise_new(ex, sb, "InterfaceError")
            yield st, None
        def m_locate(ex, st, recv, args, kw):
            st.ghost["located"] = st.ghost["located"] + 1; yield st, None
        def c_maps(ex, st):
            g = st.ghost; o = st.heap[g["this"].oid]; ms = g["maps"]
            ok = (len(ms) == 2 and o.get("_check_name_to_class_map") is ms[0][0] and getattr(getattr(ms[0][1], "info", None), "name", None) == "AbstractCheck" and o.get("_field_format_name_to_class_map") is ms[1][0] and getattr(getattr(ms[1][1], "info", None), "name", None) == "AbstractFieldFormat")
            return Sym(BOOL, z3.BoolVal(bool(ok)))
        def c_state(ex, st):
            g = st.ghost; o = st.heap[g["this"].oid]
            if with_path:
                ok = g["read_args"] is not None and g["read_args"][0] is g["this"] and g["read_args"][1] is g["path"] and g["read_args"][2] is g["rows"] and g["rows_from"] is g["path"] and g["state_at_read"] is True and g["located"] == 0
            else:
                ok = empty_state(o) and g["read_args"] is None and g["located"] == 1
            return Sym(BOOL, z3.BoolVal(bool(ok)))
        c = Contract("interface.Cid.__init__", setup,
                returns=[Clause(c_maps, "check-and-field-format-classes-are-looked-up-among-the-subclasses-of-AbstractCheck-and-AbstractFieldFormat", props=["C20", "C09"]),
                         Clause(c_state, "a-Cid-starts-without-format-fields-or-checks-and-with-a-path-is-read-from-that-path's-rows" if with_path else "a-Cid-without-path-starts-without-format-fields-or-checks-located-at-the-caller", props=["C09", "C08", "C17"])],
                raises={"InterfaceError": [], "DataFormatError": []} if with_path else {}, expect=["return"] + (["InterfaceError", "DataFormatError"] if with_path else []), raises_only_props=["C09", "C10"])
        return {"contract": c, "label": "with path" if with_path else "without path",
                "callees": {"ref:Cid._create_name_to_class_map": m_class_map, "interface.Cid._create_name_to_class_map": ModelContract(m_class_map), "rowio.auto_rows": ModelContract(m_auto_rows), "ref:Cid.read": m_read, "ref:Cid.set_location_to_caller": m_locate},
                "assumptions": ["Cid.read / rowio.auto_rows are used through their verified contracts; _create_name_to_class_map is used through its verified contract's interface (a map built from the subclasses of the base class it is given; unit interface.Cid._create_name_to_class_map)"]}
    def make(ctx): return [mk(False), mk(True)]
    return ProofUnit("interface.Cid.__init__", "Cid.__init__: empty definition, class maps from the two base classes, optional read from a path", ["C09", "C08", "C17", "C20", "C10"], make, None)


class ClassMapOracle(Oracle):
    """native twin of the contract of Cid._create_name_to_class_map (and bounded stand-in for Cid._all_subclasses): real class trees built with type()"""
    quick_cases = 40000; thorough_cases = 400000
    bound = "class trees of 0-4 classes (each derived from the base or from an earlier class, so up to 4 levels deep), __name__ over {A, B, x.A}, __module__ over {m1, m2}; plus diamonds (two parents) of 3-4 classes"
    def cases(self, ctx):
        names = ["A", "B", "x.A"]; mods = ["m1", "m2"]
        for n in range(0, 5):
            for parents in itertools.product(*[range(-1, i) for i in range(n)]):
                for nm in itertools.product(names, repeat=n):
                    for md in itertools.product(mods if n <= 3 else ["m1"], repeat=n):
                        yield ([(p,) for p in parents], nm, md)
        for nm in itertools.product(names, repeat=4):
            for md in itertools.product(mods, repeat=4):
                yield ([(-1,), (-1,), (0, 1), (2,)], nm, md)
                yield ([(-1,), (0,), (0,), (1, 2)], nm, md)
    def check(self, c):
        from cutplace import interface, errors
        parents, nm, md = c
        base = type("Base", (), {"__module__": "m0"}); made = []
        for ps, n_, m_ in zip(parents, nm, md):
            made.append(type(n_, tuple(base if p < 0 else made[p] for p in ps), {"__module__": m_}))
        plain = lambda k: k.__name__.split(".")[-1]; info = lambda k: (k.__module__, k.__name__)
        clash = any(plain(a) == plain(b) and info(a) != info(b) for a in made for b in made if a is not b)
        try: got = interface.Cid._create_name_to_class_map(base)
        except errors.CutplaceError as e:
            return None if clash else {"expected": "a map (no two different classes share a plain name)", "observed": "CutplaceError: %s" % e}
        except Exception as e: return {"expected": "a map or CutplaceError", "observed": repr(e)}
        if clash: return {"expected": "CutplaceError (two different classes share a plain name)", "observed": "map with keys %s" % sorted(got)}
        if set(got) != {plain(k) for k in made}: return {"expected": "keys %s" % sorted({plain(k) for k in made}), "observed": "keys %s" % sorted(got)}
        for k, v in got.items():
            if not any(v is m for m in made) or plain(v) != k: return {"expected": "%r resolves to a subclass of the base named so" % k, "observed": repr(v)}
            if sum(1 for m in made if plain(m) == k) == 1 and not any(v is m for m in made if plain(m) == k): return {"expected": "the only class named %r" % k, "observed": repr(v)}
        return None
    def describe(self, c): return {"parents": [list(p) for p in c[0]], "names": list(c[1]), "modules": list(c[2])}


# =====================================================================================================================
# Cid._create_name_to_class_map (C20, C09): which class a plain class name resolves to, for built-ins and plug-ins alike
# =====================================================================================================================
def unit_create_name_to_class_map():
    CLS = Abs("Class")
    def plain(ex, c): return ex.absfun_s("last_dotted_part", [z3.StringSort()], z3.StringSort())(ex.absfun_s("class_dunder_name", [sort_of(CLS)], z3.StringSort())(c))
    def info(ex, c): return ex.absfun_s("class_info_text", [sort_of(CLS)], z3.StringSort())(c)
    def setup(ex, st):
        base = fresh(CLS, "base_class")[0]
        classes, c = fresh(UFList(CLS), "subclasses"); st.pc.extend(c)
        # _all_subclasses returns a set: its elements are pairwise different; pos is the (ghost) position of a class in the iteration order
        pos = z3.Function("pos_in_subclasses", sort_of(CLS), z3.IntSort()); j = z3.Int("j!pos")
        st.pc.append(z3.ForAll([j], z3.Implies(z3.And(0 <= j, j < classes.length), pos(classes.at(j)) == j), patterns=[classes.at(j)]))
        st.frames[-1].env["base_class"] = base
        st.ghost.update({"classes": classes, "pos": pos, "base": base, "asked": None})
    def m_all_subclasses(ex, st, fn, args, kw):
        st.ghost["asked"] = args[0]; yield st, st.ghost["classes"]
    def absattr_name(ex, st, recv): return Sym(STR, ex.absfun_s("class_dunder_name", [sort_of(CLS)], z3.StringSort())(recv.z))
    def m_split_last(ex, st, recv, args, kw): yield st, [Sym(STR, ex.absfun_s("last_dotted_part", [z3.StringSort()], z3.StringSort())(lift(recv).z))]
    def m_class_info(ex, st, fn, args, kw): yield st, Sym(STR, info(ex, lift(args[0]).z))
    def m_is_ci(ex, st, fn, args, kw): yield st, Sym(BOOL, ex.absfun_s("is_ci_pytest_class", [sort_of(CLS)], z3.BoolSort())(lift(args[0]).z))
    def unique_name(ex, st, jz):
        classes = st.ghost["classes"]; l = z3.Int("l!un")
        return z3.ForAll([l], z3.Implies(z3.And(0 <= l, l < classes.length, l != jz), plain(ex, classes.at(l)) != plain(ex, classes.at(jz))))
    def upto(ex, st, res, k):
        """the map after the first k classes: (a) every one of them has its plain name registered, (b) every registered name maps to one of them that carries this plain name,
        (c) a class whose plain name no other class shares is the one its name resolves to"""
        kk = k if isinstance(k, z3.ExprRef) else lift(k).z; classes = st.ghost["classes"]; pos = st.ghost["pos"]
        if isinstance(res, dict): return Sym(BOOL, z3.And(z3.BoolVal(len(res) == 0), kk == 0))
        j = z3.Int("j!upto"); key = z3.String("key!upto")
        a = z3.ForAll([j], z3.Implies(z3.And(0 <= j, j < kk), res.has(plain(ex, classes.at(j)))))
        b = z3.ForAll([key], z3.Implies(res.has(key), z3.And(0 <= pos(res.val(key)), pos(res.val(key)) < kk, classes.at(pos(res.val(key))) == res.val(key), plain(ex, res.val(key)) == key)))
        c = z3.ForAll([j], z3.Implies(z3.And(0 <= j, j < kk, unique_name(ex, st, j)), res.val(plain(ex, classes.at(j))) == classes.at(j)))
        return Sym(BOOL, z3.And(a, b, c))
    def names_clash(ex, st):
        classes = st.ghost["classes"]; a, b = z3.Ints("a!clash b!clash")
        return z3.Exists([a, b], z3.And(0 <= a, a < b, b < classes.length, plain(ex, classes.at(a)) == plain(ex, classes.at(b)), info(ex, classes.at(a)) != info(ex, classes.at(b))))
    def make(ctx):
        c = Contract("interface.Cid._create_name_to_class_map", setup,
                returns=[Clause(lambda ex, st: upto(ex, st, st.ghost["__result__"], st.ghost["classes"].length),
                                "every-subclass-is-registered-under-its-plain-class-name-every-entry-is-a-subclass-carrying-that-name-and-a-name-borne-by-one-class-only-resolves-to-that-class", props=["C20", "C09"]),
                         Clause(lambda ex, st: Sym(BOOL, z3.BoolVal(st.ghost["asked"] is st.ghost["base"])), "the-classes-considered-are-all-subclasses-of-the-given-base-class", props=["C20"])],
                raises={"CutplaceError": [Clause(lambda ex, st: Sym(BOOL, names_clash(ex, st)), "refused-only-when-two-different-classes-share-a-plain-name", props=["C20", "C09"])]},
                loops={0: LoopSpec(invariants=["upto(result, _i0)"], havoc={"result": UFDictOf(STR, CLS), "qualified_class_name": STR, "plain_class_name": STR, "clashing_class": Opt(CLS),
                                                                             "clashing_class_info": STR, "class_to_process_info": STR})},
                expect=["return", "CutplaceError"], n_loops=1, modifies=[], raises_only_props=["C20", "C10"])
        return {"contract": c, "callees": {"ref:Cid._all_subclasses": m_all_subclasses, "interface.Cid._all_subclasses": ModelContract(m_all_subclasses), "absattr:Class.__name__": absattr_name, "strmethod:split": m_split_last,
                                           "ref:Cid._class_info": m_class_info, "ref:Cid._is_ci_pytest_class": m_is_ci,
                                           "interface.Cid._class_info": ModelContract(m_class_info), "interface.Cid._is_ci_pytest_class": ModelContract(m_is_ci)}, "spec_functions": {"upto": upto},
                "assumptions": ["Cid._all_subclasses(base) is used through an assumed contract: a set (pairwise different classes, any iteration order) - that it holds exactly the transitive subclasses is reflection "
                                "(`__subclasses__`), bounded stand-in: C20.protocol / C20.late-classes resolve real plug-in classes; class.__name__, _class_info and _is_ci_pytest_class are uninterpreted functions of the class"]}
    return ProofUnit("interface.Cid._create_name_to_class_map", "_create_name_to_class_map: every subclass registered under its plain name, unique names resolve to their class, clashes refused", ["C20", "C09"], make, ClassMapOracle())


def unit_fnl_follows_cid():
    """bounded: field_names_and_lengths describes the CID as it is now (nothing remembered from an earlier call with the same Cid object)"""
    def run(ctx):
        import io
        from cutplace import interface, validio, errors
        def check(widths):
            cid = interface.Cid(); cid.read("c", [["d", "format", "fixed"], ["d", "line delimiter", "lf"]] + [["f", "f%d" % i, "", "", str(w)] for i, w in enumerate(widths[:1])])
            seen = [list(interface.field_names_and_lengths(cid))]
            for i, w in enumerate(widths[1:], 1):
                cid.add_field_format_row(["f%d" % i, "", "", str(w)])
                seen.append(list(interface.field_names_and_lengths(cid)))
            want = [[("f%d" % i, w) for i, w in enumerate(widths[:k])] for k in range(1, len(widths) + 1)]
            if seen != want: return {"expected": want, "observed": seen}
            text = "".join(chr(97 + i) * w for i, w in enumerate(widths)) + "\n"
            got = list(validio.rows(cid, io.StringIO(text)))
            exp = [[chr(97 + i) * w for i, w in enumerate(widths)]]
            return None if got == exp else {"expected": exp, "observed": got}
        cases = [(2,), (2, 3), (1, 1, 4), (3, 2, 1, 2)]
        return [sweep("C13/fnl/field_names_and_lengths follows the Cid as fields are added", cases, check, "bounded", "4 fixed CIDs grown field by field, widths re-read after every addition, then one record read",
                      describe=lambda c: {"widths": list(c)}, function="interface.field_names_and_lengths", unit="C13.fnl-follows-cid")]
    return NativeUnit("C13.fnl-follows-cid", "bounded: field_names_and_lengths reflects the current fields of the Cid object", ["C13", "C08"], run, kind="bounded")
