"""rowio row writers: FixedRowWriter.write_row, DelimitedRowWriter.write_row (C14, C10)."""
import z3
from .common import *
from vf.unit import ProofUnit
from vf.model import *

FNL = Tup(STR, INT)


def m_stream_write(ex, st, recv, args, kw):
    o = st.heap[recv.oid]
    if not st.ghost["writes"]:
        fail = fresh(BOOL, "encode_error")[0]
        if feasible(st.pc, fail.z):
            sb = st.copy(); sb.pc.append(fail.z); yield sb, Raise(ex.new_builtin_exc(sb, "UnicodeEncodeError", ["cannot encode"]))
        st.pc.append(z3.Not(fail.z))
    st.ghost["writes"] = st.ghost["writes"] + [args[0]]
    yield st, None


def unit_fixed_row_writer_write_row():
    def setup_for(sep):
        def setup(ex, st):
            n = fresh(INT, "n")[0]; st.pc.append(n.z >= 0)
            row, c = fresh(UFList(STR), "row"); fnl, c2 = fresh(UFList(FNL), "fnl"); st.pc.extend(c + c2); st.pc.append(fnl.length == n.z)
            line0 = fresh(INT, "line0")[0]; st.pc.append(line0.z >= 0)
            loc = Ref("Location"); st.heap[loc.oid] = {"file_path": "<io>", "_line": line0, "_column": 0, "_cell": fresh(INT, "cell0")[0], "_sheet": 0, "_has_column": False, "_has_cell": True, "_has_sheet": False}
            stream = Ref("Stream"); st.heap[stream.oid] = {}
            self = Ref("FixedRowWriter"); st.heap[self.oid] = {"_field_names_and_lengths": fnl, "_expected_row_item_count": n, "_line_separator": sep, "_target_stream": stream, "_location": loc}
            st.frames[-1].env.update({"self": self, "row_to_write": row})
            st.ghost.update({"row": row, "fnl": fnl, "n": n, "line0": line0, "loc": loc, "writes": []})
        return setup
    def exact_widths(ex, st):
        row = st.ghost["row"]; fnl = st.ghost["fnl"]; j = z3.Int("j!ew"); W = sort_of(FNL).accessor(0, 1)
        return Sym(BOOL, z3.And(row.length == G(st, "n"), z3.ForAll([j], z3.Implies(z3.And(0 <= j, j < row.length), z3.Length(row.at(j)) == W(fnl.at(j))))))
    def make(ctx):
        out = []
        for label, sep in (("with line separator", "\n"), ("crlf", "\r\n"), ("without line separator", None)):
            def wrote(ex, st, sep=sep):
                w = st.ghost["writes"]; joins = st.ghost.get("joins", {})
                ok = len(w) == (2 if sep is not None else 1) and isinstance(w[0], Sym) and str(w[0].z) in joins and joins[str(w[0].z)][0] == "" and joins[str(w[0].z)][1] is st.ghost["row"]
                if ok and sep is not None: ok = (w[1] == sep)
                return Sym(BOOL, z3.BoolVal(bool(ok)))
            out.append({"contract": Contract("rowio.FixedRowWriter.write_row", setup_for(sep), requires=[exact_widths],
                            returns=[Clause(wrote, "emits-the-concatenated-items-then-the-line-separator-nothing-else", props=["C14"]),
                                     Clause("loc._line == line0 + 1 and loc._cell == 0", "advances-to-the-next-line", props=["C14"])],
                            raises={"DataFormatError": [Clause(lambda ex, st: Sym(BOOL, z3.BoolVal(len(st.ghost["writes"]) == 0)), "an-encoding-failure-emits-nothing", props=["C14", "C10"])]},
                            loops={0: LoopSpec(invariants=[], havoc={"field_index": INT, "field_value": STR, "field_name": STR, "expected_field_length": INT, "actual_field_length": INT, "loc._cell": INT})},
                            expect=["return", "DataFormatError"], n_loops=1, raises_only_props=["C14", "C10"]),
                        "callees": {"ref:Stream.write": m_stream_write}, "label": label,
                        "assumptions": ["precondition (established by Writer._padded_fixed_row + validate_length, verified): the row has one item per field, each of exactly its width",
                                        "stream.write raises only UnicodeEncodeError; ''.join(row) is an uninterpreted concatenation tagged with its argument"]})
        return out
    return ProofUnit("rowio.FixedRowWriter.write_row", "FixedRowWriter.write_row: no assertion can fail for padded rows; emits join(row) + separator; advances the line", ["C14", "C10"], make, None)


def unit_delimited_row_writer_write_row():
    def m_writerow(ex, st, recv, args, kw):
        st.ghost["written"] = st.ghost["written"] + [args[0]]
        fail = fresh(BOOL, "encode_error")[0]
        for s2, b in ex.fork(st, fail):
            if b: yield s2, Raise(ex.new_builtin_exc(s2, "UnicodeEncodeError", ["cannot encode"]))
            else: yield s2, None
    def setup(ex, st):
        row, c = fresh(UFList(STR), "row"); st.pc.extend(c)
        line0 = fresh(INT, "line0")[0]; st.pc.append(line0.z >= 0)
        loc = Ref("Location"); st.heap[loc.oid] = {"file_path": "<io>", "_line": line0, "_column": 0, "_cell": 0, "_sheet": 0, "_has_column": False, "_has_cell": True, "_has_sheet": False}
        wr = Ref("CsvWriter"); st.heap[wr.oid] = {}
        self = Ref("DelimitedRowWriter"); st.heap[self.oid] = {"_delimited_writer": wr, "_location": loc}
        st.frames[-1].env.update({"self": self, "row_to_write": row}); st.ghost.update({"row": row, "line0": line0, "loc": loc, "written": []})
    def make(ctx):
        once = lambda ex, st: Sym(BOOL, z3.BoolVal(len(st.ghost["written"]) == 1 and st.ghost["written"][0] is st.ghost["row"]))
        return {"contract": Contract("rowio.DelimitedRowWriter.write_row", setup,
                    returns=[Clause(once, "hands-the-row-to-csv-exactly-once", props=["C14", "C12"]), Clause("loc._line == line0 + 1", "advances-to-the-next-line", props=["C14"])],
                    raises={"DataFormatError": [Clause("loc._line == line0", "a-failed-write-does-not-advance", props=["C14"])]}, expect=["return", "DataFormatError"], n_loops=0, raises_only_props=["C14", "C10"]),
                "callees": {"ref:CsvWriter.writerow": m_writerow}, "assumptions": ["A-CSV (writer): csv writer.writerow raises only UnicodeEncodeError on an encoding stream"]}
    return ProofUnit("rowio.DelimitedRowWriter.write_row", "DelimitedRowWriter.write_row: row handed to csv once; encoding failures become DataFormatError", ["C14", "C12", "C10"], make, None)


def unit_xlsx_row_writer_write_row():
    def setup(ex, st):
        row, c = fresh(UFList(STR), "row"); st.pc.extend(c)
        line0 = fresh(INT, "line0")[0]; st.pc.append(line0.z >= 0)
        loc = Ref("Location"); st.heap[loc.oid] = {"file_path": "<xlsx>", "_line": line0, "_column": 0, "_cell": 0, "_sheet": 0, "_has_column": False, "_has_cell": True, "_has_sheet": False}
        ws = Ref("Worksheet"); st.heap[ws.oid] = {}
        self = Ref("XlsxRowWriter"); st.heap[self.oid] = {"_location": loc, "_worksheet": ws, "_workbook": Ref("Workbook")}
        st.frames[-1].env.update({"self": self, "row_to_write": row}); st.ghost.update({"row": row, "line0": line0, "loc": loc, "cells_written": 0})
    def m_write_string(ex, st, recv, args, kw):
        i = lift(st.frames[-1].env["_i0"]).z
        ex.obligations.append(Obligation("item-j-of-the-row-goes-to-cell-(current-line,-j)-as-a-string-cell-each-item-once-in-order", st.pc,
                                         z3.And(lift(args[0]).z == G(st, "line0"), lift(args[1]).z == i, lift(args[2]).z == st.ghost["row"].at(i), G(st, "cells_written") == i), "post", props=["C16"]))
        st.ghost["cells_written"] = Sym(INT, G(st, "cells_written") + 1); yield st, None
    def make(ctx):
        c = Contract("rowio.XlsxRowWriter.write_row", setup,
                returns=[Clause("cells_written == len(row)", "every-item-is-written", props=["C16"]), Clause("loc._line == line0 + 1 and loc._cell == 0", "advances-to-the-next-row", props=["C16"])],
                raises={}, loops={0: LoopSpec(invariants=["loc._cell == _i0", "cells_written == _i0", "loc._line == line0"], havoc={"item": STR, "column_index": INT, "loc._cell": INT}, ghost_havoc={"cells_written": INT})},
                expect=["return"], n_loops=1, raises_only_props=["C16", "C10"])
        return {"contract": c, "callees": {"ref:Worksheet.write_string": m_write_string}, "assumptions": ["xlsxwriter's Worksheet.write_string(row, col, text) stores a string cell (A-XLRD side audited by the workbook round trip)"]}
    return ProofUnit("rowio.XlsxRowWriter.write_row", "XlsxRowWriter.write_row: item j of the i-th written row goes to cell (i, j) as a string cell", ["C16"], make, None)
