"""rowio row writers: FixedRowWriter.write_row, DelimitedRowWriter.write_row (C14, C10)."""
import z3
from .common import *
from vf import findings
from vf.unit import ProofUnit
from vf.model import *

FNL = Tup(STR, INT)


def m_stream_write(ex, st, recv, args, kw):
    o = st.heap[recv.oid]
    if not st.ghost["writes"]:
        fail = fresh(BOOL, "encode_error")[0]
        if feasible(st.pc, fail.z):
            sb = st.copy(); sb.pc.append(fail.z); yield sb, Raise(ex.new_builtin_exc(sb, "UnicodeEncodeError", ["cannot encode"]))
        st.pc.append(z3.Not(fail.z))
    st.ghost["writes"] = st.ghost["writes"] + [args[0]]
    yield st, None


def unit_fixed_row_writer_write_row():
    def setup_for(sep):
        def setup(ex, st):
            n = fresh(INT, "n")[0]; st.pc.append(n.z >= 0)
            row, c = fresh(UFList(STR), "row"); fnl, c2 = fresh(UFList(FNL), "fnl"); st.pc.extend(c + c2); st.pc.append(fnl.length == n.z)
            line0 = fresh(INT, "line0")[0]; st.pc.append(line0.z >= 0)
            loc = Ref("Location"); st.heap[loc.oid] = {"file_path": "<io>", "_line": line0, "_column": 0, "_cell": fresh(INT, "cell0")[0], "_sheet": 0, "_has_column": False, "_has_cell": True, "_has_sheet": False}
            stream = Ref("Stream"); st.heap[stream.oid] = {}
            self = Ref("FixedRowWriter"); st.heap[self.oid] = {"_field_names_and_lengths": fnl, "_expected_row_item_count": n, "_line_separator": sep, "_target_stream": stream, "_location": loc}
            st.frames[-1].env.update({"self": self, "row_to_write": row})
            st.ghost.update({"row": row, "fnl": fnl, "n": n, "line0": line0, "loc": loc, "writes": []})
        return setup
    def exact_widths(ex, st):
        row = st.ghost["row"]; fnl = st.ghost["fnl"]; j = z3.Int("j!ew"); W = sort_of(FNL).accessor(0, 1)
        return Sym(BOOL, z3.And(row.length == G(st, "n"), z3.ForAll([j], z3.Implies(z3.And(0 <= j, j < row.length), z3.Length(row.at(j)) == W(fnl.at(j))))))
    def make(ctx):
        out = []
        for label, sep in (("with line separator", "\n"), ("crlf", "\r\n"), ("without line separator", None)):
            def wrote(ex, st, sep=sep):
                w = st.ghost["writes"]; joins = st.ghost.get("joins", {})
                ok = len(w) == (2 if sep is not None else 1) and isinstance(w[0], Sym) and str(w[0].z) in joins and joins[str(w[0].z)][0] == "" and joins[str(w[0].z)][1] is st.ghost["row"]
                if ok and sep is not None: ok = (w[1] == sep)
                return Sym(BOOL, z3.BoolVal(bool(ok)))
            out.append({"contract": Contract("rowio.FixedRowWriter.write_row", setup_for(sep), requires=[exact_widths],
                            returns=[Clause(wrote, "emits-the-concatenated-items-then-the-line-separator-nothing-else", props=["C14"]),
                                     Clause("loc._line == line0 + 1 and loc._cell == 0", "advances-to-the-next-line", props=["C14"])],
                            raises={"DataFormatError": [Clause(lambda ex, st: Sym(BOOL, z3.BoolVal(len(st.ghost["writes"]) == 0)), "an-encoding-failure-emits-nothing", props=["C14", "C10"])]},
                            loops={0: LoopSpec(invariants=[], havoc={"field_index": INT, "field_value": STR, "field_name": STR, "expected_field_length": INT, "actual_field_length": INT, "loc._cell": INT}, match="enumerate(row_to_write)")},
                            expect=["return", "DataFormatError"], raises_only_props=["C14", "C10"]),
                        "callees": {"ref:Stream.write": m_stream_write}, "label": label,
                        "assumptions": ["precondition (established by Writer._padded_fixed_row + validate_length, verified): the row has one item per field, each of exactly its width",
                                        "stream.write raises only UnicodeEncodeError; ''.join(row) is an uninterpreted concatenation tagged with its argument"]})
        return out
    return ProofUnit("rowio.FixedRowWriter.write_row", "FixedRowWriter.write_row: no assertion can fail for padded rows; emits join(row) + separator; advances the line", ["C14", "C10"], make, None)


def unit_delimited_row_writer_write_row():
    def m_writerow(ex, st, recv, args, kw):
        st.ghost["written"] = st.ghost["written"] + [args[0]]
        fail = fresh(BOOL, "encode_error")[0]
        for s2, b in ex.fork(st, fail):
            if b: yield s2, Raise(ex.new_builtin_exc(s2, "UnicodeEncodeError", ["cannot encode"]))
            else: yield s2, None
    def setup(ex, st):
        row, c = fresh(UFList(STR), "row"); st.pc.extend(c)
        line0 = fresh(INT, "line0")[0]; st.pc.append(line0.z >= 0)
        loc = Ref("Location"); st.heap[loc.oid] = {"file_path": "<io>", "_line": line0, "_column": 0, "_cell": 0, "_sheet": 0, "_has_column": False, "_has_cell": True, "_has_sheet": False}
        wr = Ref("CsvWriter"); st.heap[wr.oid] = {}
        self = Ref("DelimitedRowWriter"); st.heap[self.oid] = {"_delimited_writer": wr, "_location": loc}
        st.frames[-1].env.update({"self": self, "row_to_write": row}); st.ghost.update({"row": row, "line0": line0, "loc": loc, "written": []})
    def make(ctx):
        once = lambda ex, st: Sym(BOOL, z3.BoolVal(len(st.ghost["written"]) == 1 and st.ghost["written"][0] is st.ghost["row"]))
        return {"contract": Contract("rowio.DelimitedRowWriter.write_row", setup,
                    returns=[Clause(once, "hands-the-row-to-csv-exactly-once", props=["C14", "C12"]), Clause("loc._line == line0 + 1", "advances-to-the-next-line", props=["C14"])],
                    raises={"DataFormatError": [Clause("loc._line == line0", "a-failed-write-does-not-advance", props=["C14"])]}, expect=["return", "DataFormatError"], n_loops=0, raises_only_props=["C14", "C10"]),
                "callees": {"ref:CsvWriter.writerow": m_writerow}, "assumptions": ["A-CSV (writer): csv writer.writerow raises only UnicodeEncodeError on an encoding stream"]}
    return ProofUnit("rowio.DelimitedRowWriter.write_row", "DelimitedRowWriter.write_row: row handed to csv once; encoding failures become DataFormatError", ["C14", "C12", "C10"], make, None)


def unit_xlsx_row_writer_write_row():
    ROWMAX, COLMAX, STRMAX = 1048576, 16384, 32767
    ENC = z3.Function("encodable_as_utf8", z3.StringSort(), z3.BoolSort())        # A-STR: item.encode('utf-8') succeeds (no lone surrogate)
    def setup(ex, st):
        row, c = fresh(UFList(STR), "row"); st.pc.extend(c)
        line0 = fresh(INT, "line0")[0]; st.pc.append(line0.z >= 0)
        loc = Ref("Location"); st.heap[loc.oid] = {"file_path": "<xlsx>", "_line": line0, "_column": 0, "_cell": 0, "_sheet": 0, "_has_column": False, "_has_cell": True, "_has_sheet": False}
        ws = Ref("Worksheet"); st.heap[ws.oid] = {"xls_rowmax": ROWMAX, "xls_colmax": COLMAX, "xls_strmax": STRMAX}
        self = Ref("XlsxRowWriter"); st.heap[self.oid] = {"_location": loc, "_worksheet": ws, "_workbook": Ref("Workbook")}
        st.frames[-1].env.update({"self": self, "row_to_write": row}); st.ghost.update({"row": row, "line0": line0, "loc": loc, "cells_written": 0, "beyond_limits": False, "unencodable": False})
    def m_encode(ex, st, recv, args, kw):
        for s2, b in ex.fork(st, Sym(BOOL, ENC(lift(recv).z))):
            if b: yield s2, Opaque()
            else: s2.ghost["unencodable"] = True; yield s2, Raise(ex.new_builtin_exc(s2, "UnicodeEncodeError", ["surrogates not allowed"]))
    def m_write_string(ex, st, recv, args, kw):
        i = lift(st.frames[-1].env["_i1"]).z
        ex.obligations.append(Obligation("item-j-of-the-row-goes-to-cell-(current-line,-j)-as-a-string-cell-each-item-once-in-order", st.pc,
                                         z3.And(lift(args[0]).z == G(st, "line0"), lift(args[1]).z == i, lift(args[2]).z == st.ghost["row"].at(i), G(st, "cells_written") == i), "post", props=["C16"]))
        # A-XLSX: write_string answers 0 when the cell is stored as given and a negative number when it is beyond the limits of the format (then skipped or truncated)
        sb = st.copy(); r = fresh(INT, "write_result")[0]; sb.pc.append(r.z < 0); sb.ghost["beyond_limits"] = True; yield sb, r
        st.ghost["cells_written"] = Sym(INT, G(st, "cells_written") + 1); yield st, 0
    def RICH(z): return z3.And(z3.PrefixOf(z3.StringVal("<r>"), z), z3.SuffixOf(z3.StringVal("</r>"), z))      # what xlsxwriter would copy into the workbook as rich text markup
    def too_big(st, upto):
        row = st.ghost["row"]; j = z3.Int("j!tb")
        return z3.Or(G(st, "line0") >= ROWMAX, row.length > COLMAX, z3.Exists([j], z3.And(0 <= j, j < upto, z3.Length(row.at(j)) > STRMAX)))
    def sf_pre_ok(ex, st, k):
        kk = lift(k).z; row = st.ghost["row"]; j = z3.Int("j!po"); flag = lift(st.frames[-1].env["exceeds_excel_limits"]).z
        return Sym(BOOL, z3.And(flag == too_big(st, kk), z3.ForAll([j], z3.Implies(z3.And(0 <= j, j < kk), z3.And(ENC(row.at(j)), z3.Not(RICH(row.at(j))))))))
    def c_fits(ex, st):
        row = st.ghost["row"]; j = z3.Int("j!cf")
        return Sym(BOOL, z3.And(z3.Not(too_big(st, row.length)), z3.ForAll([j], z3.Implies(z3.And(0 <= j, j < row.length), z3.And(ENC(row.at(j)), z3.Not(RICH(row.at(j)))))), z3.BoolVal(not st.ghost.get("beyond_limits"))))
    def c_refused(ex, st):
        row = st.ghost["row"]; j = z3.Int("j!cr")
        return Sym(BOOL, z3.Or(too_big(st, row.length), z3.Exists([j], z3.And(0 <= j, j < row.length, z3.Or(z3.Not(ENC(row.at(j))), RICH(row.at(j))))), z3.BoolVal(bool(st.ghost.get("beyond_limits")))))
    def c_nothing_written(ex, st):
        return Sym(BOOL, z3.Or(z3.BoolVal(bool(st.ghost.get("beyond_limits"))), z3.And(G(st, "cells_written") == 0, lift(st.heap[st.ghost["loc"].oid]["_line"]).z == G(st, "line0"), lift(st.heap[st.ghost["loc"].oid]["_cell"]).z == 0)))
    def make(ctx):
        c = Contract("rowio.XlsxRowWriter.write_row", setup,
                returns=[Clause("cells_written == len(row)", "every-item-is-written-as-given", props=["C16"]), Clause("loc._line == line0 + 1 and loc._cell == 0", "advances-to-the-next-row", props=["C16"]),
                         Clause(c_fits, "returns-only-if-the-row-is-within-the-limits-of-the-file-format-(rows,-columns,-characters-per-cell)-every-cell-can-be-encoded-and-none-looks-like-rich-text-markup", props=["C16"])],
                raises={"DataFormatError": [Clause(c_refused, "refuses-only-a-row-the-file-format-cannot-hold", props=["C16", "C10"]),
                                            Clause(c_nothing_written, "a-refused-row-is-refused-as-a-whole:-no-cell-written-the-position-unchanged-(the-backstop-on-xlsxwriter's-own-answer-aside)", props=["C16"])]},
                loops={0: LoopSpec(invariants=["pre_ok(_i0)"], havoc={"item": STR, "exceeds_excel_limits": BOOL}),
                       1: LoopSpec(invariants=["loc._cell == _i1", "cells_written == _i1", "loc._line == line0"], havoc={"item": STR, "column_index": INT, "write_result": INT, "loc._cell": INT}, ghost_havoc={"cells_written": INT})},
                expect=["return", "DataFormatError"], n_loops=2, raises_only_props=["C16", "C10"])
        return {"contract": c, "callees": {"ref:Worksheet.write_string": m_write_string, "strmethod:encode": m_encode}, "spec_functions": {"pre_ok": sf_pre_ok},
                "assumptions": ["A-XLSX: xlsxwriter's Worksheet.write_string(row, col, text) stores a string cell and answers 0, or answers a negative number for a cell beyond the limits of the format (audited by the workbook round trip incl. 32768 characters / 16385 columns); its limits are the attributes xls_rowmax / xls_colmax / xls_strmax (read natively: 1048576 / 16384 / 32767)",
                                "A-STR: item.encode('utf-8') raises UnicodeEncodeError or succeeds (uninterpreted predicate encodable_as_utf8)"]}
    return ProofUnit("rowio.XlsxRowWriter.write_row", "XlsxRowWriter.write_row: item j of the i-th written row goes to cell (i, j) as a string cell", ["C16"], make, None)


# ---------------------------------------------------------------- constructors, close, write_rows
def _writer_init_setup(cls, target_kind, extra_env=None, df_extra=None):
    def setup(ex, st):
        enc = fresh(STR, "encoding")[0]
        df = Ref("DataFormat"); st.heap[df.oid] = {"_format": {"FixedRowWriter": "fixed", "DelimitedRowWriter": "delimited"}[cls], "_is_valid": True, "_encoding": enc}
        if df_extra: df_extra(ex, st, st.heap[df.oid])
        if target_kind == "path": target = fresh(STR, "target_path")[0]; st.pc.append(z3.Length(target.z) > 0)
        elif target_kind == "named": nm = fresh(STR, "stream_name")[0]; st.pc.append(z3.Length(nm.z) > 0); target = Ref("Stream"); st.heap[target.oid] = {"name": nm}
        else: target = Ref("Stream"); st.heap[target.oid] = {}
        self = Ref(cls); st.heap[self.oid] = {}
        st.frames[-1].env.update({"self": self, "target": target, "data_format": df})
        st.ghost.update({"this": self, "target": target, "df": df, "enc": enc, "opened": None, "open_failed": False})
        if extra_env: extra_env(ex, st)
    return setup


def _m_open_w(ex, st, fn, args, kw):
    """io.open(path, "w", encoding=..., newline=""): OSError, or a fresh stream; the call's arguments are obligations"""
    ok = (args[0] is st.ghost["target"] and len(args) >= 2 and args[1] == "w" and kw.get("encoding") is st.ghost["enc"] and kw.get("newline") == "")
    ex.obligations.append(Obligation("the-target-path-is-opened-for-writing-in-the-data-format's-encoding-without-newline-translation", st.pc, z3.BoolVal(bool(ok)), "post", props=["C12", "C14"]))
    sb = st.copy(); sb.ghost["open_failed"] = True; yield sb, Raise(ex.new_builtin_exc(sb, "OSError", ["cannot open"]))
    s = Ref("Stream"); st.heap[s.oid] = {}; st.ghost["opened"] = s; yield st, s


def _c_base_bound(target_kind):
    def c(ex, st):
        g = st.ghost; o = st.heap[g["this"].oid]; loc = o.get("_location"); lo = st.heap[loc.oid] if isinstance(loc, Ref) else {}
        if target_kind == "path": ok = o.get("_target_stream") is g["opened"] and g["opened"] is not None and o.get("_has_opened_target_stream") is True and o.get("_target_path") is g["target"]
        elif target_kind == "named": ok = o.get("_target_stream") is g["target"] and o.get("_has_opened_target_stream") is False and o.get("_target_path") is st.heap[g["target"].oid]["name"]
        else: ok = o.get("_target_stream") is g["target"] and o.get("_has_opened_target_stream") is False and o.get("_target_path") == "<io>"
        same_path = lo.get("file_path") is o.get("_target_path") or (isinstance(lo.get("file_path"), str) and lo.get("file_path") == o.get("_target_path"))
        ok = ok and o.get("_data_format") is g["df"] and isinstance(loc, Ref) and lo.get("_has_cell") is True and same_path
        if not ok: return Sym(BOOL, z3.BoolVal(False))
        return Sym(BOOL, z3.And(lift(lo["_line"]).z == 0, lift(lo["_cell"]).z == 0))
    return c


def unit_fixed_row_writer_init():
    FNLS = sort_of(FNL); W = FNLS.accessor(0, 1)
    def mk(target_kind, ld):
        def extra(ex, st):
            fnl, c = fresh(UFList(FNL), "fnl"); st.pc.extend(c); j = z3.Int("j!w")
            st.pc.append(z3.ForAll([j], z3.Implies(z3.And(0 <= j, j < fnl.length), W(fnl.at(j)) >= 1)))       # precondition: widths >= 1 (field_names_and_lengths contract)
            st.frames[-1].env["field_names_and_lengths"] = fnl; st.ghost["fnl"] = fnl
        def dfx(ex, st, o): o["_line_delimiter"] = ld
        import os as _os
        exp_sep = _os.linesep if ld == "any" else ld
        def c_sep(ex, st):
            o = st.heap[st.ghost["this"].oid]
            return Sym(BOOL, z3.And(z3.BoolVal(o.get("_line_separator", 0) == exp_sep and o.get("_field_names_and_lengths") is st.ghost["fnl"]), lift(o["_expected_row_item_count"]).z == st.ghost["fnl"].length))
        c = Contract("rowio.FixedRowWriter.__init__", _writer_init_setup("FixedRowWriter", target_kind, extra, dfx),
                returns=[Clause(_c_base_bound(target_kind), "bound-to-target-and-data-format-a-path-is-opened-(and-owned)-a-stream-is-used-as-is-location-at-the-first-row", props=["C14"]),
                         Clause(c_sep, "line-separator-is-the-declared-line-delimiter-(os.linesep-for-any-none-for-none)-one-expected-item-per-field", props=["C14"])],
                raises={"OSError": [Clause("open_failed", "only-a-failing-open-fails", props=["C10"])]},
                loops={0: LoopSpec(invariants=[], havoc={"field_name": STR, "field_length": INT})},
                expect=["return"] + (["OSError"] if target_kind == "path" else []), n_loops=1)
        return {"contract": c, "label": "target=%s line_delimiter=%r" % (target_kind, ld), "callees": {"builtin:io.open": _m_open_w},
                "assumptions": ["io.open raises only OSError or returns a stream (A-IO)", "precondition: every field width is >= 1 (ensured by interface.field_names_and_lengths, verified)"]}
    def make(ctx): return [mk(t, ld) for t in ("path", "named", "anonymous") for ld in ("\n", "\r\n", "\r", "any", None)]
    return ProofUnit("rowio.FixedRowWriter.__init__", "FixedRowWriter.__init__ (with AbstractRowWriter.__init__ inlined): target opened newline='' in the declared encoding, line separator per data format", ["C14", "C12", "C10"], make, None)


def unit_delimited_row_writer_init():
    def mk(target_kind):
        def m_keywords(ex, st, fn, args, kw):
            ex.obligations.append(Obligation("csv-keywords-are-derived-from-the-writer's-data-format", st.pc, z3.BoolVal(args[0] is st.ghost["df"]), "post", props=["C12"]))
            k = {"delimiter": fresh(STR, "kw_delimiter")[0], "quotechar": fresh(STR, "kw_quotechar")[0]}; st.ghost["keywords"] = dict(k); yield st, k
        def m_csv_writer(ex, st, fn, args, kw):
            w = Ref("CsvWriter"); st.heap[w.oid] = {}; st.ghost["csv_args"] = (args[0], dict(kw)); st.ghost["csv"] = w; yield st, w
        def c_csv(ex, st):
            g = st.ghost; o = st.heap[g["this"].oid]
            passed = dict(g["csv_args"][1]) if g.get("csv") is not None else {}
            lt = passed.pop("lineterminator", None)
            ok = g.get("csv") is not None and o.get("_delimited_writer") is g["csv"] and g["csv_args"][0] is o.get("_target_stream") and set(passed) == set(g["keywords"]) and all(passed[k] is v for k, v in g["keywords"].items())
            # lines end with the declared line delimiter; 'any' leaves the csv module's default (CR LF)
            ld = G(st, "ld")
            # (recorded finding K-10: the writer passes no line terminator at all, i.e. always CR LF; while it is recorded only the declared 'any' case is demanded of a writer passing none)
            ends = z3.And(ld != "any", lift(lt).z == ld) if lt is not None else (z3.BoolVal(True) if findings.is_known("K-10", "C14") else (ld == "any"))
            return Sym(BOOL, z3.And(z3.BoolVal(bool(ok)), ends))
        def df_extra(ex, st, o):
            ld = fresh(STR, "line_delimiter")[0]; st.pc.append(z3.Or(ld.z == "any", ld.z == "\n", ld.z == "\r", ld.z == "\r\n")); o["_line_delimiter"] = ld; st.ghost["ld"] = ld
        c = Contract("rowio.DelimitedRowWriter.__init__", _writer_init_setup("DelimitedRowWriter", target_kind, df_extra=df_extra),
                returns=[Clause(_c_base_bound(target_kind), "bound-to-target-and-data-format-a-path-is-opened-(and-owned)-a-stream-is-used-as-is-location-at-the-first-row", props=["C14", "C12"]),
                         Clause(c_csv, "the-csv-writer-writes-to-the-target-stream-with-exactly-the-keywords-of-_as_delimited_keywords(data_format)-and-ends-lines-with-the-declared-line-delimiter", props=["C12", "C14"])],
                raises={"OSError": [Clause("open_failed", "only-a-failing-open-fails", props=["C10"])]},
                expect=["return"] + (["OSError"] if target_kind == "path" else []))
        return {"contract": c, "label": "target=%s" % target_kind, "callees": {"builtin:io.open": _m_open_w, "rowio._as_delimited_keywords": ModelContract(m_keywords), "_compat.csv_writer": ModelContract(m_csv_writer)},
                "assumptions": ["_as_delimited_keywords is used through its verified contract (rowio._as_delimited_keywords)", "_compat.csv_writer(stream, **kw) is csv.writer(stream, **kw) (A-CSV, audited)"]}
    def make(ctx): return [mk(t) for t in ("path", "named", "anonymous")]
    return ProofUnit("rowio.DelimitedRowWriter.__init__", "DelimitedRowWriter.__init__: csv writer over the target stream with the keywords derived from the data format", ["C12", "C14", "C10"], make, None)


def unit_row_writer_close():
    def mk(owned):
        def setup(ex, st):
            s = Ref("Stream"); st.heap[s.oid] = {}
            self = Ref("DelimitedRowWriter"); st.heap[self.oid] = {"_target_stream": s, "_target_path": "x", "_has_opened_target_stream": owned}
            st.frames[-1].env.update({"self": self}); st.ghost.update({"this": self, "closed": 0, "s": s})
        def m_close(ex, st, recv, args, kw):
            ex.obligations.append(Obligation("closes-its-own-target-stream", st.pc, z3.BoolVal(recv is st.ghost["s"]), "protocol", props=["C14"]))
            st.ghost["closed"] = Sym(INT, G(st, "closed") + 1); yield st, None
        c = Contract("rowio.AbstractRowWriter.close", setup,
                returns=[Clause("closed == %d and this._target_stream is None and this._target_path is None and this._has_opened_target_stream == False" % (1 if owned else 0),
                                "a-stream-the-writer-opened-is-closed-exactly-once-a-caller's-stream-is-left-open-the-writer-lets-go-of-both", props=["C14", "C12"])],
                raises={}, expect=["return"])
        return {"contract": c, "label": "owned stream" if owned else "caller's stream", "callees": {"ref:Stream.close": m_close}, "assumptions": ["stream.close() does not raise"]}
    def make(ctx): return [mk(True), mk(False)]
    return ProofUnit("rowio.AbstractRowWriter.close", "AbstractRowWriter.close: closes only a stream it opened; idempotent state afterwards", ["C14", "C12"], make, None)


def unit_row_writer_write_rows():
    def setup(ex, st):
        s = Ref("Stream"); st.heap[s.oid] = {}
        self = Ref("DelimitedRowWriter"); st.heap[self.oid] = {"_target_stream": s}
        rows, c = fresh(UFList(INT), "rows"); st.pc.extend(c)
        st.frames[-1].env.update({"self": self, "rows_to_write": rows}); st.ghost.update({"rows": rows, "written": 0, "failed_at": -1})
    def m_write_row(ex, st, recv, args, kw):
        i = lift(st.frames[-1].env["_i0"]).z
        ex.obligations.append(Obligation("write_row-receives-the-rows-in-order-each-once", st.pc, z3.And(lift(args[0]).z == st.ghost["rows"].at(i), G(st, "written") == i), "protocol", props=["C12", "C14"]))
        sb = st.copy(); sb.ghost["failed_at"] = Sym(INT, i); yield from raise_new(ex, sb, "DataFormatError")
        st.ghost["written"] = Sym(INT, G(st, "written") + 1); yield st, None
    def make(ctx):
        c = Contract("rowio.AbstractRowWriter.write_rows", setup,
                returns=[Clause("written == len(rows)", "every-row-is-passed-to-write_row", props=["C12", "C14"])],
                raises={"DataFormatError": [Clause("failed_at >= 0 and written == failed_at", "stops-at-the-first-failing-row-with-all-earlier-rows-written", props=["C12", "C14"])]},
                loops={0: LoopSpec(invariants=["written == _i0", "failed_at == -1"], havoc={"row_to_write": INT}, ghost_havoc={"written": INT})},
                expect=["return", "DataFormatError"], n_loops=1, raises_only_props=["C10"])
        return {"contract": c, "callees": {"ref:DelimitedRowWriter.write_row": m_write_row}, "assumptions": ["write_row of the concrete writer is used through its verified contract"]}
    return ProofUnit("rowio.AbstractRowWriter.write_rows", "AbstractRowWriter.write_rows: rows go to write_row in order, each once", ["C12", "C14", "C10"], make, None)


def unit_xlsx_row_writer_write_rows():
    """XlsxRowWriter overrides write_rows (it has no target stream): same contract as the general one"""
    def setup(ex, st):
        self = Ref("XlsxRowWriter"); st.heap[self.oid] = {"_workbook": Ref("Workbook"), "_target_stream": None}
        rows, c = fresh(UFList(INT), "rows"); st.pc.extend(c)
        st.frames[-1].env.update({"self": self, "rows_to_write": rows}); st.ghost.update({"rows": rows, "written": 0, "failed_at": -1})
    def m_write_row(ex, st, recv, args, kw):
        i = lift(st.frames[-1].env["_i0"]).z
        ex.obligations.append(Obligation("write_row-receives-the-rows-in-order-each-once", st.pc, z3.And(lift(args[0]).z == st.ghost["rows"].at(i), G(st, "written") == i), "protocol", props=["C16"]))
        sb = st.copy(); sb.ghost["failed_at"] = Sym(INT, i); yield from raise_new(ex, sb, "DataFormatError")
        st.ghost["written"] = Sym(INT, G(st, "written") + 1); yield st, None
    def make(ctx):
        c = Contract("rowio.XlsxRowWriter.write_rows", setup,
                returns=[Clause("written == len(rows)", "every-row-is-passed-to-write_row", props=["C16"])],
                raises={"DataFormatError": [Clause("failed_at >= 0 and written == failed_at", "stops-at-the-first-failing-row-with-all-earlier-rows-written", props=["C16"])]},
                loops={0: LoopSpec(invariants=["written == _i0", "failed_at == -1"], havoc={"row_to_write": INT}, ghost_havoc={"written": INT})},
                expect=["return", "DataFormatError"], n_loops=1, raises_only_props=["C10", "C16"])
        return {"contract": c, "callees": {"ref:XlsxRowWriter.write_row": m_write_row}, "assumptions": ["XlsxRowWriter.write_row is used through its verified contract; the writer is open (workbook present)"]}
    return ProofUnit("rowio.XlsxRowWriter.write_rows", "XlsxRowWriter.write_rows: works without a target stream; rows go to write_row in order, each once", ["C16", "C10"], make, None)


def unit_xlsx_row_writer_close():
    """XlsxRowWriter.close / __exit__: the workbook is written (closed) exactly once, a closed writer stays closed"""
    def mk(is_open, via_exit, after_error=False):
        def setup(ex, st):
            wb = Ref("Workbook"); st.heap[wb.oid] = {}
            self = Ref("XlsxRowWriter"); st.heap[self.oid] = {"_workbook": wb if is_open else None, "_worksheet": Ref("Worksheet") if is_open else None, "_target_path": "<xlsx>" if is_open else None, "_target_stream": None}
            st.frames[-1].env["self"] = self
            if via_exit: st.frames[-1].env.update({"exc_type": Ref("ExcType") if after_error else None, "exc_val": Ref("ExcValue") if after_error else None, "exc_tb": Ref("Traceback") if after_error else None})
            st.ghost.update({"this": self, "wb": wb, "closed": []})
        def m_wb_close(ex, st, recv, args, kw):
            st.ghost["closed"] = st.ghost["closed"] + [recv]; yield st, None
        def done(ex, st):
            o = st.heap[st.ghost["this"].oid]; cl = st.ghost["closed"]
            ok = o.get("_workbook", 0) is None and o.get("_worksheet", 0) is None and ((len(cl) == 1 and cl[0] is st.ghost["wb"]) if is_open else len(cl) == 0)
            return Sym(BOOL, z3.BoolVal(bool(ok)))
        name = "rowio.XlsxRowWriter.__exit__" if via_exit else "rowio.XlsxRowWriter.close"
        c = Contract(name, setup, returns=[Clause(done, "an-open-writer's-workbook-is-closed-(written-to-its-file)-exactly-once-and-forgotten-a-closed-writer-closes-nothing", props=["C16"])], raises={}, expect=["return"], n_loops=0,
                     modifies=None, raises_only_props=["C16", "C10"])       # no frame clause: which private attributes close() tidies up besides the workbook is not C16's business
        return {"contract": c, "callees": {"ref:Workbook.close": m_wb_close}, "label": ("open" if is_open else "already closed") + (" via __exit__" if via_exit else "") + (" after an error in the block" if after_error else ""),
                "assumptions": ["xlsxwriter.Workbook.close() writes the file and returns (assumed; the round trip through real files is the bounded C16 workbook sweep)"]}
    def make(ctx): return [mk(True, False), mk(False, False), mk(True, True), mk(False, True)]       # how __exit__ behaves after an error in the block is not part of C16: no clause about it
    return ProofUnit("rowio.XlsxRowWriter.close", "XlsxRowWriter.close / __exit__: workbook closed exactly once, idempotent", ["C16"], make, None)
