"""Sidecar contracts for cutplace/data.py: DataFormat.__init__, set_property and its validators, validate (C11, C12, C10)."""
import csv, itertools, z3
from .common import *
from vf.unit import ProofUnit, NativeUnit, Oracle, sweep
from vf.model import *

FORMATS = ["delimited", "fixed", "excel", "ods"]
QUOTES = sorted("!\"#$%&'*+-/:;=?\\^_`~")
# documented defaults and applicability, transcribed from the property statement / docs (not from the code)
DEFAULTS = {
    "delimited": {"_header": 0, "_encoding": "cp1252", "_allowed_characters": None, "_escape_character": '"', "_item_delimiter": ",", "_quote_character": '"', "_quoting": csv.QUOTE_MINIMAL,
                  "_skip_initial_space": False, "_decimal_separator": ".", "_line_delimiter": "any", "_thousands_separator": ""},
    "fixed": {"_header": 0, "_encoding": "cp1252", "_allowed_characters": None, "_decimal_separator": ".", "_line_delimiter": "any", "_thousands_separator": ""},
    "excel": {"_header": 0, "_encoding": "cp1252", "_allowed_characters": None, "_sheet": 1},
    "ods": {"_header": 0, "_encoding": "cp1252", "_allowed_characters": None, "_sheet": 1},
}
APPLICABLE = {f: sorted(k[1:] for k in DEFAULTS[f]) for f in FORMATS}


def lower_of(ex, z): return ex.absfun_s("str_lower", [z3.StringSort()], z3.StringSort())(z)
def strip_of(ex, z): return ex.absfun_s("str_strip", [z3.StringSort()], z3.StringSort())(z)


# ---------------------------------------------------------------- callee models
def m_validated_character(ex, st, fn, args, kw):
    """contract of _validated_character (verified separately): a 1-character string or InterfaceError"""
    okb = fresh(BOOL, "char_ok")[0]
    for s2, b in ex.fork(st, okb):
        if b:
            c = fresh(STR, "char")[0]; s2.pc.append(z3.Length(c.z) == 1); s2.ghost["char_result"] = c; yield s2, c
        else: yield from raise_new(ex, s2, "InterfaceError")

def m_range_ctor(ex, st, info, args, kw):
    """contract of ranges.Range(text) (C01): a Range object or InterfaceError [K: tokenize errors escape, see C10]"""
    okb = fresh(BOOL, "range_ok")[0]
    for s2, b in ex.fork(st, okb):
        if b:
            r = Ref("Range"); s2.heap[r.oid] = {"_items": Opaque(), "_description": args[0] if args else None}; s2.ghost["range_result"] = r; yield s2, r
        else: yield from raise_new(ex, s2, "InterfaceError")

def m_codecs_lookup(ex, st, fn, args, kw):
    """codecs.lookup(name): LookupError for unknown names (trusted: the runtime's codec registry)"""
    known = ex.absfun_s("codec_known", [z3.StringSort()], z3.BoolSort())(lift(args[0]).z)
    for s2, b in ex.fork(st, Sym(BOOL, known)):
        if b: yield s2, Opaque()
        else: yield s2, Raise(ex.new_builtin_exc(s2, "LookupError", ["unknown encoding"]))

def m_str_encode(ex, st, recv, args, kw):
    """''.encode(name): LookupError when the codec is no text encoding (hex, rot13, ...; G-10), else bytes"""
    text = ex.absfun_s("codec_is_text_encoding", [z3.StringSort()], z3.BoolSort())(lift(args[0]).z)
    for s2, b in ex.fork(st, Sym(BOOL, text)):
        if b: yield s2, Opaque()
        else: yield s2, Raise(ex.new_builtin_exc(s2, "LookupError", ["not a text encoding"]))

def base_callees():
    return {"_tools.human_readable_list": ModelContract(m_opaque_str), "builtin:codecs.lookup": m_codecs_lookup, "strmethod:encode": m_str_encode, "class:Range": m_range_ctor}


def new_format(ex, st, fmt):
    """a DataFormat built by running the real DataFormat.__init__"""
    info = S.find_class("DataFormat")
    res = list(ex.instantiate(st, info, [fmt], {}))
    assert len(res) == 1 and not isinstance(res[0][1], Raise), res
    st2, obj = res[0]
    if st2 is not st: st.__dict__.update(st2.__dict__)
    return obj


# ---------------------------------------------------------------- DataFormat.__init__: defaults and applicable properties
def unit_dataformat_init():
    def make(ctx):
        out = []
        for fmt in FORMATS + ["csv"]:
            key = "delimited" if fmt == "csv" else fmt
            def setup(ex, st, fmt=fmt):
                self = Ref("DataFormat"); st.heap[self.oid] = {}
                st.frames[-1].env.update({"self": self, "format_name": fmt, "location": None}); st.ghost["this"] = self
            def defaults_ok(ex, st, key=key):
                obj = st.heap[st.ghost["this"].oid]
                want = dict(DEFAULTS[key]); want["_format"] = key; want["_is_valid"] = False
                got = {k: v for k, v in obj.items() if k != "_VALID_LINE_DELIMITER_TEXTS"}
                ok_ = set(got) == set(want) and all((got[k] == want[k]) and type(got[k]) == type(want[k]) for k in want)
                return Sym(BOOL, z3.BoolVal(bool(ok_)))
            out.append({"contract": Contract("data.DataFormat.__init__", setup,
                            returns=[Clause(defaults_ok, "documented-defaults-and-exactly-the-applicable-properties", props=["C11", "C17"])], raises={}, expect=["return"], n_loops=0),
                        "label": "format " + fmt, "spec_functions": {}})
        def setup_bad(ex, st):
            self = Ref("DataFormat"); st.heap[self.oid] = {}
            name = fresh(STR, "format_name")[0]
            st.pc.append(z3.And(*[name.z != f for f in FORMATS + ["csv"]])); st.pc.append(lower_of(ex, name.z) == name.z)
            st.frames[-1].env.update({"self": self, "format_name": name, "location": Ref("Location")}); st.heap[st.frames[-1].env["location"].oid] = {"_line": 0, "_cell": 0, "_has_cell": True, "file_path": "x", "_column": 0, "_sheet": 0, "_has_column": False, "_has_sheet": False}
        out.append({"contract": Contract("data.DataFormat.__init__", setup_bad, returns=[Clause("False", "unknown-format-is-refused", props=["C11", "C09"])], raises={"InterfaceError": []}, expect=["InterfaceError"], n_loops=0),
                    "label": "unknown format name"})
        return out
    return ProofUnit("data.DataFormat.__init__", "DataFormat.__init__: documented defaults and the set of applicable properties per format; unknown format refused", ["C11", "C17", "C09"], make, None)


# ---------------------------------------------------------------- set_property, one run per (format, property name)
def expected_store(ex, st, name, value):
    """(accept condition, attribute name, expected stored value as python/Sym or a callable checking the stored value) from the statement"""
    v = value.z
    int_ok = ex.absfun_s("int_parses", [z3.StringSort()], z3.BoolSort())(v); int_v = ex.absfun_s("int_value", [z3.StringSort()], z3.IntSort())(v)
    low = lower_of(ex, v)
    if name == "encoding": return z3.And(ex.absfun_s("codec_known", [z3.StringSort()], z3.BoolSort())(v), ex.absfun_s("codec_is_text_encoding", [z3.StringSort()], z3.BoolSort())(v)), "_encoding", value
    if name == "header": return z3.And(int_ok, int_v >= 0), "_header", Sym(INT, int_v)
    if name == "sheet": return z3.And(int_ok, int_v >= 1), "_sheet", Sym(INT, int_v)
    if name == "allowed_characters": return lift(st.ghost.get("range_ok_marker", True)).z if False else None, "_allowed_characters", None
    if name == "decimal_separator": return z3.Or(v == ".", v == ","), "_decimal_separator", value
    if name == "thousands_separator": return z3.Or(v == ",", v == ".", v == ""), "_thousands_separator", value
    if name == "escape_character": return z3.Or(v == '"', v == "\\"), "_escape_character", value
    if name == "quote_character": return z3.Or(*[v == q for q in QUOTES]), "_quote_character", value
    if name == "quoting": return z3.Or(low == "all", low == "minimal"), "_quoting", Sym(INT, z3.If(low == "all", z3.IntVal(csv.QUOTE_ALL), z3.IntVal(csv.QUOTE_MINIMAL)))
    if name == "skip_initial_space": return z3.Or(low == "true", low == "false"), "_skip_initial_space", Sym(BOOL, low == "true")
    if name == "line_delimiter": return None, "_line_delimiter", None
    if name == "item_delimiter": return None, "_item_delimiter", None
    raise KeyError(name)


def set_property_contract(fmt, name):
    attr = "_" + name
    def setup(ex, st):
        obj = new_format(ex, st, fmt)
        value = fresh(STR, "value")[0]
        st.frames[-1].env.update({"self": obj, "name": name.replace("_", " ") if name != "is_valid" else name, "value": value, "location": None})
        st.ghost.update({"this": obj, "value": value})
        st.pc.append(lower_of(ex, lower_of(ex, value.z)) == lower_of(ex, value.z))      # A-STR: str.lower is idempotent (the boolean properties lower the value before and inside _validated_choice)
        st.ghost["old_fields"] = dict(st.heap[obj.oid])
    applicable = name in APPLICABLE[fmt]
    def post_return(ex, st):
        obj = st.heap[st.ghost["this"].oid]; value = st.ghost["value"]
        if not applicable: return Sym(BOOL, z3.BoolVal(False))          # must have been refused
        cond, a, want = expected_store(ex, st, name, value)
        got = obj[a]
        conj = []
        if name == "allowed_characters":
            conj.append(z3.BoolVal(isinstance(got, Ref) and got == st.ghost.get("range_result")))
        elif name == "line_delimiter":
            low = lower_of(ex, value.z)
            table = {"any": "any", "lf": "\n", "cr": "\r", "crlf": "\r\n"}
            opts = [z3.And(low == k, lift(got).z == z3.StringVal(v)) if not (got is None) else z3.BoolVal(False) for k, v in table.items()]
            if fmt == "fixed": opts.append(z3.And(low == "none", z3.BoolVal(got is None)))
            conj.append(z3.Or(*opts))
        elif name == "item_delimiter":
            ch = st.ghost.get("char_result")
            conj.append(z3.BoolVal(ch is not None and got is ch) if not isinstance(got, Sym) or ch is None else z3.And(got.z == ch.z, ch.z != z3.StringVal("\x00")))
        else:
            conj.append(cond)
            conj.append(lift(got).z == lift(want).z if lift(got).ty == lift(want).ty else z3.BoolVal(False))
        return Sym(BOOL, z3.And(*conj))
    def post_raise(ex, st):
        value = st.ghost["value"]
        if not applicable: return Sym(BOOL, z3.BoolVal(True))
        cond, a, want = expected_store(ex, st, name, value)
        if cond is None: return Sym(BOOL, z3.BoolVal(True))           # verdict delegated to a callee contract (Range / _validated_character) or stated in post_return
        return Sym(BOOL, z3.Not(cond))
    others = [k for k in DEFAULTS[fmt]]
    return Contract("data.DataFormat.set_property", setup,
        returns=[Clause(post_return, "value-accepted-only-in-a-documented-spelling-and-stored-in-its-property", props=["C11"])],
        raises={"InterfaceError": [Clause(post_raise, "refused-only-if-not-applicable-or-not-a-documented-value", props=["C11"])]},
        expect=(["return", "InterfaceError"] if applicable else ["InterfaceError"]), n_loops=0,
        modifies=["DataFormat." + attr], raises_only_props=["C10", "C11"])


def unit_set_property():
    names = sorted({k[1:] for f in FORMATS for k in DEFAULTS[f]}) + ["is_valid", "format"]
    def make(ctx):
        out = []
        for fmt in FORMATS:
            for name in names:
                cal = base_callees(); cal["data.DataFormat._validated_character"] = ModelContract(m_validated_character)
                out.append({"contract": set_property_contract(fmt, name), "callees": cal, "label": "%s / %s" % (fmt, name.replace("_", " "))})
        # arbitrary lower-case property name (incl. internal attribute names, blanks): refused with an InterfaceError unless it is one of the documented names
        for fmt in FORMATS:
            def setup(ex, st, fmt=fmt):
                obj = new_format(ex, st, fmt)
                name = fresh(STR, "name")[0]; value = fresh(STR, "value")[0]
                st.pc.append(lower_of(ex, name.z) == name.z)
                rep = ex.absfun_s("str_replace", [z3.StringSort()] * 3, z3.StringSort())(name.z, z3.StringVal(" "), z3.StringVal("_"))
                # A-STR: replacing blanks by underscores keeps a lower-case text lower-case; lower() of the (concrete) attribute names
                st.pc.append(lower_of(ex, rep) == rep)
                for k in st.heap[obj.oid]: st.pc.append(lower_of(ex, z3.StringVal(k[1:])) == z3.StringVal(k[1:].lower()))
                st.pc.append(z3.And(*[rep != k for k in APPLICABLE[fmt]]))
                st.frames[-1].env.update({"self": obj, "name": name, "value": value, "location": None}); st.ghost.update({"this": obj})
            cal = base_callees(); cal["data.DataFormat._validated_character"] = ModelContract(m_validated_character)
            out.append({"contract": Contract("data.DataFormat.set_property", setup, returns=[Clause("False", "undocumented-property-name-is-refused", props=["C11", "C10"])],
                                             raises={"InterfaceError": []}, expect=["InterfaceError"], n_loops=0, modifies=[], raises_only_props=["C10", "C11"]),
                        "callees": cal, "label": "%s / any other name" % fmt})
        return out
    return ProofUnit("data.DataFormat.set_property", "set_property: per format and property - applicability, documented value sets, stored value, frame, raises only InterfaceError", ["C11", "C10"], make, SetPropertyOracle(), timeout=900)


class SetPropertyOracle(Oracle):
    quick_cases = 5000
    bound = "4 formats x 14 property names (+ internal/unknown names) x value pool of 40 spellings"
    POOL = ["", " ", "0", "1", "-1", "2", "x", "abc", ".", ",", '"', "\\", "'", "!", "~", "all", "ALL", "Minimal", "none", "None", "any", "Any", "lf", "LF", "cr", "crlf", "CRLF", "true", "True", "false", "yes",
            "utf-8", "cp1252", "no-such-codec", "latin_1", "0x20", "32", "tab", "';'", "1...5", "a b", "1.5", "９"]
    NAMES = ["allowed characters", "encoding", "escape character", "header", "item delimiter", "line delimiter", "quote character", "sheet", "skip initial space", "decimal separator",
             "thousands separator", "quoting", "is valid", "format", "valid line delimiter texts", "nonsense", ""]
    def cases(self, ctx):
        for f in FORMATS:
            for n in self.NAMES:
                for v in self.POOL:
                    yield (f, n, v)
    def expected(self, f, n, v):
        import codecs
        key = n.replace(" ", "_")
        if key not in APPLICABLE[f]: return "refuse", None
        low = v.lower()
        def isint(s):
            try: return int(s)
            except ValueError: return None
        if key == "encoding":
            try: codecs.lookup(v); return "accept", v
            except LookupError: return "refuse", None
        if key == "header": return ("accept", isint(v)) if isint(v) is not None and isint(v) >= 0 else ("refuse", None)
        if key == "sheet": return ("accept", isint(v)) if isint(v) is not None and isint(v) >= 1 else ("refuse", None)
        if key == "decimal_separator": return ("accept", v) if v in (".", ",") else ("refuse", None)
        if key == "thousands_separator": return ("accept", v) if v in (".", ",", "") else ("refuse", None)
        if key == "escape_character": return ("accept", v) if v in ('"', "\\") else ("refuse", None)
        if key == "quote_character": return ("accept", v) if v in QUOTES else ("refuse", None)
        if key == "quoting": return ("accept", {"all": csv.QUOTE_ALL, "minimal": csv.QUOTE_MINIMAL}[low]) if low in ("all", "minimal") else ("refuse", None)
        if key == "skip_initial_space": return ("accept", low == "true") if low in ("true", "false") else ("refuse", None)
        if key == "line_delimiter":
            t = {"any": "any", "lf": "\n", "cr": "\r", "crlf": "\r\n"}
            if f == "fixed": t["none"] = None
            return ("accept", t[low]) if low in t else ("refuse", None)
        return "skip", None
    def check(self, case):
        from cutplace import data, errors
        f, n, v = case
        exp, want = self.expected(f, n, v)
        if exp == "skip": return None
        d = data.DataFormat(f)
        before = dict(d.__dict__)
        try: d.set_property(n, v); obs = "accept"
        except errors.InterfaceError: obs = "refuse"
        except Exception as e: return {"expected": exp, "observed": "%s: %s" % (type(e).__name__, e)}
        if obs != exp: return {"expected": exp, "observed": obs}
        key = "_" + n.replace(" ", "_")
        for k, b in before.items():
            if k != key and d.__dict__[k] != b: return {"expected": "only %s changes" % key, "observed": "%s changed" % k}
        if obs == "accept" and (d.__dict__[key] != want or type(d.__dict__[key]) != type(want)): return {"expected": "stored %r" % (want,), "observed": "stored %r" % (d.__dict__[key],)}
        if obs == "refuse" and d.__dict__ != before: return {"expected": "unchanged on refusal", "observed": "changed"}
        return None
    def describe(self, c): return {"format": c[0], "property": c[1], "value": c[2], "call": "DataFormat(format).set_property(property, value)"}


# =====================================================================================================================
# DataFormat.validate: consistency rules (C11) and the gating obligation for the csv round trip (C12)
# =====================================================================================================================
def setup_validate(fmt):
    def setup(ex, st):
        obj = new_format(ex, st, fmt)
        o = st.heap[obj.oid]
        # class invariant established by set_property (verified above): the value set of every property
        g = {}
        if fmt == "delimited":
            item = fresh(STR, "item_delimiter")[0]; quote = fresh(STR, "quote_character")[0]; esc = fresh(STR, "escape_character")[0]
            st.pc.append(z3.Length(item.z) == 1); st.pc.append(item.z != z3.StringVal("\x00"))
            st.pc.append(z3.Or(*[quote.z == c for c in QUOTES])); st.pc.append(z3.Or(esc.z == '"', esc.z == "\\"))
            o.update({"_item_delimiter": item, "_quote_character": quote, "_escape_character": esc, "_quoting": fresh(INT, "quoting")[0], "_skip_initial_space": fresh(BOOL, "skip")[0]})
            g.update(item=item, quote=quote, esc=esc)
        if fmt in ("delimited", "fixed"):
            dec = fresh(STR, "decimal_separator")[0]; thou = fresh(STR, "thousands_separator")[0]
            st.pc.append(z3.Or(dec.z == ".", dec.z == ",")); st.pc.append(z3.Or(thou.z == ",", thou.z == ".", thou.z == ""))
            line = fresh(Opt(STR), "line_delimiter")[0]; so = sort_of(Opt(STR)); lv = so.val(line.z)
            valid = z3.Or(lv == "any", lv == "\n", lv == "\r", lv == "\r\n")
            st.pc.append(z3.And(z3.Not(so.is_none(line.z)), valid) if fmt == "delimited" else z3.Or(so.is_none(line.z), valid))
            o.update({"_decimal_separator": dec, "_thousands_separator": thou, "_line_delimiter": line})
            g.update(dec=dec, thou=thou, line=line)
        else:
            sh = fresh(INT, "sheet")[0]; st.pc.append(sh.z >= 1); o["_sheet"] = sh
        hd = fresh(INT, "header")[0]; st.pc.append(hd.z >= 0); o["_header"] = hd
        st.frames[-1].env["self"] = obj
        st.ghost.update(g); st.ghost["this"] = obj
    return setup


def validate_contract(fmt):
    def consistent(ex, st):
        g = st.ghost; conj = []
        if fmt in ("delimited", "fixed"):
            conj.append(G(st, "dec") != G(st, "thou"))
        if fmt == "delimited":
            so = sort_of(Opt(STR)); lv = so.val(G(st, "line"))
            conj += [G(st, "item") != G(st, "quote"), G(st, "item") != lv, G(st, "quote") != lv]
        return Sym(BOOL, z3.And(*conj) if conj else z3.BoolVal(True))
    def csv_pre(ex, st):
        """precondition of axiom A-CSV on what _as_delimited_keywords hands to csv: delimiter not in {quotechar, escapechar (if used), CR, LF}"""
        if fmt != "delimited": return Sym(BOOL, z3.BoolVal(True))
        item, quote, esc = G(st, "item"), G(st, "quote"), G(st, "esc")
        return Sym(BOOL, z3.And(item != quote, z3.Implies(esc != quote, item != esc), item != "\r", item != "\n"))
    return Contract("data.DataFormat.validate", setup_validate(fmt),
        returns=[Clause("this._is_valid == True", "marks-the-format-valid", props=["C11", "C12"]),
                 Clause(consistent, "accepted-only-without-contradictory-settings", props=["C11"]),
                 Clause(csv_pre, "accepted-delimited-format-satisfies-the-precondition-of-the-csv-round-trip-axiom", props=["C12"])],
        raises={"InterfaceError": [Clause(lambda ex, st: Sym(BOOL, z3.Or(z3.Not(consistent(ex, st).z), z3.Not(csv_pre(ex, st).z))), "refused-only-for-a-contradiction", props=["C11", "C12"])]},
        expect=(["return", "InterfaceError"] if fmt in ("delimited", "fixed") else ["return"]), n_loops=0, modifies=["DataFormat._is_valid"], raises_only_props=["C10", "C11", "C12"])


class ValidateOracle(Oracle):
    quick_cases = 6000
    bound = "delimited: item delimiter over 14 characters x 20 quote characters x 2 escape characters x 4 line delimiters x decimal/thousands pairs; fixed: decimal/thousands pairs"
    ITEMS = [",", ";", "\t", "|", " ", '"', "'", "\\", "!", "\r", "\n", ":", "~", "a"]
    def cases(self, ctx):
        for it in self.ITEMS:
            for q in QUOTES:
                for e in ('"', "\\"):
                    for ld in ("any", "lf", "cr", "crlf"):
                        yield ("delimited", it, q, e, ld, ".", "")
        for d in (".", ","):
            for t in ("", ".", ","):
                yield ("delimited", ",", '"', '"', "any", d, t); yield ("fixed", None, None, None, "any", d, t)
    def check(self, c):
        from cutplace import data, errors
        fmt, it, q, e, ld, d, t = c
        f = data.DataFormat(fmt)
        if fmt == "delimited":
            f._item_delimiter = it; f._quote_character = q; f._escape_character = e
        f._line_delimiter = {"any": "any", "lf": "\n", "cr": "\r", "crlf": "\r\n"}[ld]; f._decimal_separator = d; f._thousands_separator = t
        bad = d == t
        if fmt == "delimited":
            L = f._line_delimiter
            bad = bad or it == q or it == L or q == L or (e != q and it == e) or it in "\r\n"
        try: f.validate(); obs = "accept"
        except errors.InterfaceError: obs = "refuse"
        except Exception as ex_: return {"expected": "accept/refuse", "observed": repr(ex_)}
        exp = "refuse" if bad else "accept"
        if exp == "accept" and obs == "refuse": return None      # refusing more than the documented contradictions is not a C11/C12 violation
        return None if obs == exp else {"expected": exp, "observed": obs}
    def describe(self, c): return dict(zip(("format", "item_delimiter", "quote_character", "escape_character", "line_delimiter", "decimal_separator", "thousands_separator"), c))


def unit_validate():
    def make(ctx):
        return [{"contract": validate_contract(f), "label": "format " + f,
                 "assumptions": ["class invariant of DataFormat: every property holds a value of its documented set (established by set_property, verified in data.DataFormat.set_property)"]} for f in FORMATS]
    return ProofUnit("data.DataFormat.validate", "DataFormat.validate: contradictions refused; an accepted delimited format satisfies the csv round-trip precondition", ["C11", "C12"], make, ValidateOracle())


# =====================================================================================================================
# DataFormat._validated_character: the spellings of a character (C11); token level for the tokenised branch
# =====================================================================================================================
import token as TK
TOKEN2 = Tup(INT, STR)


def unit_validated_character():
    T2 = sort_of(TOKEN2); ttype = T2.accessor(0, 0); ttext = T2.accessor(0, 1)
    NAMES = {"cr": 13, "ff": 12, "lf": 10, "tab": 9, "vt": 11}
    def m_generated_tokens(ex, st, fn, args, kw):
        it = Ref("TokenIter"); st.heap[it.oid] = {"cursor": 0}; st.ghost["iter"] = it; st.ghost["tokenized"] = args[0]; yield st, it
    def tok_next(ex, st, recv, args, kw):
        o = st.heap[recv.oid]; T = st.ghost["T"]; c = lift(o["cursor"]).z
        if not st.ghost.get("started"):
            sb = st.copy(); sb.ghost["tok_failed"] = True; yield sb, Raise(ex.new_builtin_exc(sb, "TokenError", ["cannot tokenize"]))
        st.ghost["started"] = True
        if feasible(st.pc, c >= T.length):
            sb = st.copy(); sb.pc.append(c >= T.length); yield sb, Raise(ex.new_builtin_exc(sb, "StopIteration", []))
        st.pc.append(z3.And(c >= 0, c < T.length)); o["cursor"] = Sym(INT, c + 1)
        yield st, Sym(TOKEN2, T.at(c))
    def setup(ex, st):
        value = fresh(STR, "value")[0]
        T, c = fresh(UFList(TOKEN2), "T"); st.pc.extend(c)
        # A-TOK: a finite token list ending in exactly one ENDMARKER (generated_tokens drops the synthetic NEWLINE before it)
        st.pc.append(T.length >= 1); st.pc.append(ttype(T.at(T.length - 1)) == TK.ENDMARKER)
        j = z3.Int("j"); st.pc.append(z3.ForAll([j], z3.Implies(z3.And(0 <= j, j < T.length - 1), ttype(T.at(j)) != TK.ENDMARKER)))
        # A-TOK/A-INT: a NUMBER token carries no sign, so its value is never negative
        st.pc.append(z3.Implies(z3.And(ttype(T.at(0)) == TK.NUMBER, ex.absfun_s("int0_parses", [z3.StringSort()], z3.BoolSort())(ttext(T.at(0)))), ex.absfun_s("int0_value", [z3.StringSort()], z3.IntSort())(ttext(T.at(0))) >= 0))
        st.frames[-1].env.update({"key": "item_delimiter", "value": value, "location": None})
        st.ghost.update({"value": value, "T": T, "started": False, "tok_failed": False})
    def denotation(ex, st):
        """(is a documented spelling, code point) for the token list"""
        T = st.ghost["T"]; t0 = T.at(0); text = ttext(t0)
        int0p = ex.absfun_s("int0_parses", [z3.StringSort()], z3.BoolSort()); int0v = ex.absfun_s("int0_value", [z3.StringSort()], z3.IntSort())
        low = lower_of(ex, text)
        name_ok = z3.And(ttype(t0) == TK.NAME, z3.Or(*[low == n for n in NAMES]))
        name_code = z3.IntVal(0)
        for n, code in NAMES.items(): name_code = z3.If(low == n, code, name_code)
        num_ok = z3.And(ttype(t0) == TK.NUMBER, int0p(text), int0v(text) >= 0, int0v(text) <= 0x10FFFF)
        q = z3.SubString(text, 0, 1)
        str_plain = z3.And(ttype(t0) == TK.STRING, z3.Length(text) == 3, z3.Or(q == "\"", q == "'"), z3.SubString(text, 2, 1) == q)
        single = z3.And(ttype(t0) != TK.NAME, ttype(t0) != TK.NUMBER, ttype(t0) != TK.STRING, ttype(t0) != TK.ENDMARKER, z3.Length(text) == 1)
        one_token = T.length == 2
        ok_ = z3.And(one_token, z3.Or(name_ok, num_ok, str_plain, single))
        code = z3.If(name_ok, name_code, z3.If(num_ok, int0v(text), z3.If(str_plain, z3.StrToCode(z3.SubString(text, 1, 1)), z3.StrToCode(text))))
        return ok_, code, str_plain
    def make(ctx):
        def literal(ex, st):
            sv = strip_of(ex, G(st, "value")); return z3.And(z3.Length(sv) == 1, z3.Not(z3.Contains(z3.StringVal("0123456789"), sv))), sv
        def post(ex, st):
            r = lift(st.ghost["__result__"]).z; lit, sv = literal(ex, st); ok_, code, _ = denotation(ex, st)
            return Sym(BOOL, z3.If(lit, r == sv, z3.And(ok_, r == z3.StrFromCode(code))))
        def post_raise(ex, st):
            lit, sv = literal(ex, st); ok_, code, str_plain = denotation(ex, st); T = st.ghost["T"]; t0 = T.at(0)
            # quoted strings with escape sequences go through unicode_escape (outside the subset: bounded stand-in): not claimed either way here
            escaped_string = z3.And(ttype(t0) == TK.STRING, z3.Not(str_plain))
            return Sym(BOOL, z3.And(z3.Not(lit), z3.Or(z3.BoolVal(bool(st.ghost["tok_failed"])), z3.Not(ok_), escaped_string)))
        def post2(ex, st):
            if st.ghost.get("escaped"): return Sym(BOOL, z3.BoolVal(True))       # escape-sequence spelling: bounded stand-in
            return post(ex, st)
        c = Contract("data.DataFormat._validated_character", setup,
                returns=[Clause(post2, "a-literal-non-digit-character-a-decimal-or-0x-code-a-quoted-character-or-a-symbolic-name-all-denote-the-same-character", props=["C11"])],
                raises={"InterfaceError": [Clause(post_raise, "refused-only-if-not-a-documented-spelling", props=["C11"])]},
                expect=["return", "InterfaceError"], n_loops=0, raises_only_props=["C10", "C11"])
        def m_code_string(ex, st, fn, args, kw):
            text = lift(args[1]).z; q = z3.SubString(text, 0, 1)
            plain = z3.And(z3.Length(text) == 3, z3.Or(q == "\"", q == "'"), z3.SubString(text, 2, 1) == q)
            for s2, b in ex.fork(st, Sym(BOOL, plain)):
                if b: yield s2, Sym(INT, z3.StrToCode(z3.SubString(text, 1, 1)))
                else:
                    okb = fresh(BOOL, "escape_ok")[0]
                    for s3, b2 in ex.fork(s2, okb):
                        if b2:
                            v = fresh(INT, "escaped_code")[0]; s3.pc.append(z3.And(v.z >= 0, v.z <= 0x10FFFF)); s3.ghost["escaped"] = True; yield s3, v
                        else: yield from raise_new(ex, s3, "InterfaceError")
        return {"contract": c, "callees": {"data.generated_tokens": ModelContract(m_generated_tokens), "_tools.generated_tokens": ModelContract(m_generated_tokens), "ref:TokenIter.__next__": tok_next,
                                           "ranges.code_for_string_token": ModelContract(m_code_string)},
                "assumptions": ["A-TOK: generated_tokens(value) is a finite token list ending in one ENDMARKER or raises TokenError at the first next(); A-INT: int(text, 0); A-STR: strip/lower uninterpreted",
                                "code_for_string_token is used through a model here (plain 3-character strings: the middle character; strings with escape sequences: some code point or InterfaceError, since unicode_escape is outside the subset and covered by the bounded spelling sweep); its real body is verified inlined in the Range.__init__ proofs"]}
    return ProofUnit("data.DataFormat._validated_character", "_validated_character: every documented spelling of a code point yields chr(code) (token level)", ["C11", "C10"], make, None)


def unit_character_spellings():
    def run(ctx):
        from cutplace import data, errors
        pool = list(range(33, 127)) + [9, 10, 13, 11, 12, 32, 0xa7, 0xe4, 0x20ac, 0x10ffff]
        names = {13: "cr", 12: "ff", 10: "lf", 9: "tab", 11: "vt"}
        def cases():
            for c in pool:
                ch = chr(c)
                if not ch.isdigit() and not ch.isspace(): yield (c, "literal", ch); yield (c, "literal with blanks", " " + ch + "  ")
                yield (c, "decimal", str(c)); yield (c, "hex", hex(c)); yield (c, "HEX", "0X%X" % c)
                esc = {9: "\\t", 10: "\\n", 13: "\\r", 34: '\\"', 92: "\\\\"}.get(c, ch if c < 0x7f and c >= 32 else "\\u%04x" % c if c <= 0xffff else "\\U%08x" % c)
                yield (c, "quoted", '"%s"' % esc)
                if c >= 0x80: yield (c, "quoted literal", '"%s"' % ch); yield (c, "single quoted literal", "'%s'" % ch)
                if c != 39: yield (c, "single quoted", "'%s'" % (esc if c != 34 else '"'))
                yield (c, "hex escape in quotes", '"\\x%02x"' % c if c <= 0xff else '"\\u%04x"' % c if c <= 0xffff else '"\\U%08x"' % c)
                if c in names:
                    for n in (names[c], names[c].upper(), names[c].title() + " "): yield (c, "symbolic", n)
        def check(c):
            code, kind, text = c
            try: got = data.DataFormat._validated_character("item delimiter", text, None)
            except errors.InterfaceError as e: return {"expected": "%s spelling %r denotes %r" % (kind, text, chr(code)), "observed": "InterfaceError: %s" % str(e)[:80]}
            except Exception as e: return {"expected": "%r" % chr(code), "observed": repr(e)}
            return None if got == chr(code) else {"expected": "%s spelling %r denotes %r" % (kind, text, chr(code)), "observed": repr(got)}
        r1 = sweep("C11/spellings/every spelling of every code point in the pool denotes the same character", cases(), check, "bounded",
                   "printable ASCII, tab, CR, LF, VT, FF, blank, U+00E4, U+20AC, U+10FFFF x spellings {literal, literal with blanks, decimal, 0x / 0X hex, double / single quoted with escapes, \\x / \\u escapes, symbolic names in 3 cases}",
                   describe=lambda c: {"code_point": c[0], "spelling": c[1], "text": c[2]}, function="data.DataFormat._validated_character", unit="C11.spellings", props=["C11"])
        def bad_cases():
            for t in ["", " ", "   ", "ab", "1 2", "x y", "'ab'", "''", "0x", "1.5", "-1", "1114112", "tab lf", "nosuchname", "((", "'a", "1e3", "0x110000"]: yield t
        def bad_check(t):
            try: got = data.DataFormat._validated_character("item delimiter", t, None)
            except errors.InterfaceError: return None
            except Exception as e: return {"expected": "InterfaceError for %r" % t, "observed": repr(e)}
            return {"expected": "malformed spelling %r refused" % t, "observed": "accepted as %r" % got}
        r2 = sweep("C11/spellings/malformed spellings are refused", bad_cases(), bad_check, "bounded", "18 malformed spellings", function="data.DataFormat._validated_character", unit="C11.spellings", props=["C11", "C10"])
        # through the CID reader: the value cell of a D row reaches the property as it is written (only names are case-insensitive)
        def cid_cases():
            for prop_name, attr in (("item delimiter", "item_delimiter"),):      # the only character property without a closed list of admissible values
                for text, ch in (("X", "X"), ('"Q"', "Q"), ("88", "X"), ("0x5A", "Z"), ("Tab", "\t"), ('"\\x41"', "A"), ("'\u00c4'", "\u00c4")):
                    yield (prop_name, attr, text, ch)
        def cid_check(c):
            from cutplace import interface
            prop_name, attr, text, ch = c
            cid = interface.Cid()
            rows = [["D", "Format", "Delimited"], ["d", prop_name.upper() if len(text) % 2 else prop_name.title(), text], ["f", "a"]]
            if attr in ("decimal_separator", "thousands_separator"): rows.insert(1, ["d", "item delimiter", ";"])
            try: cid.read("cid", rows)
            except errors.InterfaceError as e: return {"expected": "CID with %s = %s accepted" % (prop_name, text), "observed": str(e)[:120]}
            got = getattr(cid.data_format, attr)
            return None if got == ch else {"expected": "%s %r denotes %r" % (prop_name, text, ch), "observed": repr(got)}
        r3 = sweep("C11/spellings/the value cell of a data format row reaches the property as written (through Cid.read)", cid_cases(), cid_check, "bounded", "item delimiter x 7 spellings with upper-case letters, property name in varying case",
                   describe=lambda c: {"property": c[0], "text": c[2]}, function="interface.Cid.add_data_format_row + data.DataFormat.set_property", unit="C11.spellings", props=["C11"])
        # "given literally, as decimal or hex code": number spellings Python reads but the documentation does not list (octal, binary, digit-group underscores)
        from vf import findings
        out_ = [r1, r2, r3]; k19 = []; undocumented = ["0o40", "0O40", "0b100001", "0B100001", "1_0", "3_2", "0x2_0"]
        def undoc_check(t):
            try: got = data.DataFormat._validated_character("item delimiter", t, None)
            except errors.InterfaceError: return None
            except Exception as e: return {"expected": "InterfaceError for %r" % t, "observed": repr(e)}
            if findings.is_known("K-19", "C11"): k19.append((t, got)); return None
            return {"expected": "undocumented number spelling %r refused" % t, "observed": "accepted as %r" % got}
        out_.append(sweep("C11/spellings/number spellings other than decimal and hex are refused", undocumented, undoc_check, "bounded", "7 octal / binary / underscore spellings", function="data.DataFormat._validated_character", unit="C11.spellings", props=["C11"]))
        if k19:
            out_.append(Result("C11/K-19 witness: an item delimiter written as an octal or binary code or with digit-group underscores is accepted (%s)" % ", ".join("%s -> %r" % kv for kv in k19[:4]), "bounded", FAILED, "native",
                               finding="K-19", cases=len(k19), props=["C11"], detail=repr(k19), replay={"verdict": "confirmed", "input": {"property": "item delimiter", "value": k19[0][0]}, "expected": "refused (neither a decimal nor a hex code)", "observed": "accepted as %r" % (k19[0][1],)}))
        return out_
    return NativeUnit("C11.spellings", "bounded stand-in for the character spellings (tokenizer + unicode_escape)", ["C11", "C10"], run, kind="bounded")
