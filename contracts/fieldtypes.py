"""Sidecar contracts for the built-in field types of cutplace/fields.py (C02)."""
import itertools, re as _re, z3
from .common import *
from vf import findings
from vf.unit import ProofUnit, NativeUnit, Oracle, sweep
from vf.model import *


def m_range_validate_pred(pred_name, num="int"):
    """callee contract of Range.validate / DecimalRange.validate (verified in contracts/ranges.py) seen as a predicate on the value"""
    def m(ex, st, recv, args, kw):
        v = lift(args[1])
        srt = z3.IntSort() if num == "int" else sort_of(DEC)
        ok_ = ex.absfun_s(pred_name, [srt], z3.BoolSort())(v.z)
        for s2, b in ex.fork(st, Sym(BOOL, ok_)):
            if b: yield s2, None
            else: yield from raise_new(ex, s2, "RangeValueError")
    return m


def base_field(ex, st, cls, extra):
    df = Ref("DataFormat"); st.heap[df.oid] = {"_format": fresh(STR, "format")[0]}
    self = Ref(cls); o = {"_field_name": fresh(STR, "fname")[0], "_rule": fresh(STR, "rule")[0], "_data_format": df, "_is_allowed_to_be_empty": fresh(BOOL, "e")[0]}
    o.update(extra); st.heap[self.oid] = o
    value = fresh(STR, "value")[0]; st.pc.append(z3.Length(value.z) > 0)       # validated() never passes an empty value (proved there)
    st.frames[-1].env.update({"self": self, "value": value}); st.ghost.update({"value": value, "this": self, "df": df})
    return self, value


# ---------------------------------------------------------------- Integer
def unit_integer_validated_value():
    def setup(ex, st):
        rng = Ref("Range"); st.heap[rng.oid] = {"_items": Opaque()}
        base_field(ex, st, "IntegerFieldFormat", {"valid_range": rng})
    def make(ctx):
        ip = lambda ex: ex.absfun_s("int_parses", [z3.StringSort()], z3.BoolSort()); iv = lambda ex: ex.absfun_s("int_value", [z3.StringSort()], z3.IntSort())
        inr = lambda ex: ex.absfun_s("in_rule_range", [z3.IntSort()], z3.BoolSort())
        acc = lambda ex, st: z3.And(ip(ex)(G(st, "value")), inr(ex)(iv(ex)(G(st, "value"))))
        c = Contract("fields.IntegerFieldFormat.validated_value", setup,
                returns=[Clause(lambda ex, st: Sym(BOOL, z3.And(acc(ex, st), lift(st.ghost["__result__"]).z == iv(ex)(G(st, "value")))), "accepted-only-an-integer-literal-inside-the-range-returned-as-the-int-it-denotes", props=["C02"])],
                raises={"FieldValueError": [Clause(lambda ex, st: Sym(BOOL, z3.Not(acc(ex, st))), "rejected-only-if-not-an-integer-literal-or-outside-the-range", props=["C02"])]},
                expect=["return", "FieldValueError"], n_loops=0, modifies=[], raises_only_props=["C02", "C10"])
        return {"contract": c, "callees": {"ref:Range.validate": m_range_validate_pred("in_rule_range")},
                "assumptions": ["A-INT: int(text) is an abstract partial function (int_parses / int_value) raising only ValueError", "valid_range.validate is used through the verified contract of Range.validate"]}
    return ProofUnit("fields.IntegerFieldFormat.validated_value", "Integer.validated_value", ["C02"], make, None)


# ---------------------------------------------------------------- Decimal: separator translation loop
def unit_decimal_validated_value():
    TR = z3.Function("translated_prefix", z3.IntSort(), z3.StringSort()); FOUND = z3.Function("decimal_separator_seen_before", z3.IntSort(), z3.BoolSort())
    STRAY = z3.Function("stray_dot_before", z3.IntSort(), z3.BoolSort())      # a '.' that is neither the decimal nor the thousands separator of the format
    def setup(ex, st):
        rng = Ref("DecimalRange"); st.heap[rng.oid] = {"_items": Opaque()}
        ds = fresh(STR, "decimal_separator")[0]; ts = fresh(STR, "thousands_separator")[0]
        st.pc.append(z3.Or(ds.z == ".", ds.z == ",")); st.pc.append(z3.Or(ts.z == ",", ts.z == ".", ts.z == "")); st.pc.append(ds.z != ts.z)     # DataFormat invariant (C11)
        # the separators are looked up in the data format when the value is validated (a property row may follow the field row): no copy in the field
        base_field(ex, st, "DecimalFieldFormat", {"valid_range": rng, "_decimal_separator": None, "_thousands_separator": None})
        df = st.ghost["df"]; st.heap[df.oid].update({"_decimal_separator": ds, "_thousands_separator": ts})
        fmt = lift(st.heap[df.oid]["_format"]).z; flat = z3.Or(fmt == "delimited", fmt == "fixed")
        st.pc.append(z3.Or(fmt == "delimited", fmt == "fixed", fmt == "excel", fmt == "ods"))
        st.ghost.update({"dec": Sym(STR, z3.If(flat, ds.z, z3.StringVal("."))), "thou": Sym(STR, z3.If(flat, ts.z, z3.StringVal("")))})
    def ch(st, i): return z3.SubString(G(st, "value"), i, 1)
    def step(st, i):
        c = ch(st, i); dec, thou = G(st, "dec"), G(st, "thou")
        return z3.If(c == dec, z3.StringVal("."), z3.If(z3.And(thou != "", c == thou), z3.StringVal(""), c))
    def stray(st, i): return z3.And(ch(st, i) == z3.StringVal("."), G(st, "dec") != z3.StringVal("."), G(st, "thou") != z3.StringVal("."))
    def unfold(ex, st):
        env = st.frames[-1].env; out = [TR(0) == z3.StringVal(""), FOUND(0) == False, STRAY(0) == False]
        for kz in {lift(env.get("_i0", 0)).z, lift(env.get("_i0", 0)).z - 1}:
            out.append(z3.Implies(kz >= 0, z3.And(TR(kz + 1) == z3.Concat(TR(kz), step(st, kz)), FOUND(kz + 1) == z3.Or(FOUND(kz), ch(st, kz) == G(st, "dec")),
                                                  STRAY(kz + 1) == z3.Or(STRAY(kz), stray(st, kz)))))
        return out
    def make(ctx):
        N = lambda st: z3.Length(G(st, "value"))
        dp = lambda ex: ex.absfun_s("dec_parses", [z3.StringSort()], z3.BoolSort()); dof = lambda ex: ex.absfun_s("dec_of", [z3.StringSort()], sort_of(DEC))
        inr = lambda ex: ex.absfun_s("in_rule_range", [sort_of(DEC)], z3.BoolSort())
        def accepted(ex, st):
            t = TR(N(st)); r = lift(st.ghost["__result__"])
            return Sym(BOOL, z3.And(dp(ex)(t), r.z == dof(ex)(t), inr(ex)(dof(ex)(t)), z3.Not(STRAY(N(st)))))
        def rejected(ex, st):
            i = lift(st.frames[-1].env.get("_i0", 0)).z; t = TR(N(st)); c = ch(st, i)
            bad_sep = z3.And(0 <= i, i < N(st), FOUND(i), z3.Or(c == G(st, "dec"), z3.And(G(st, "thou") != "", c == G(st, "thou"))))
            return Sym(BOOL, z3.Or(bad_sep, z3.And(0 <= i, i < N(st), stray(st, i)), z3.Not(dp(ex)(t)), z3.Not(inr(ex)(dof(ex)(t)))))
        c = Contract("fields.DecimalFieldFormat.validated_value", setup,
                returns=[Clause(accepted, "accepted-only-a-number-written-with-the-format's-separators-(no-other-dot)-inside-the-range-returned-as-the-Decimal-it-denotes", props=["C02"])],
                raises={"FieldValueError": [Clause(rejected, "rejected-only-for-a-second-decimal-separator-a-thousands-separator-after-it-a-dot-that-is-no-separator-a-non-number-or-a-value-outside-the-range", props=["C02"])]},
                loops={0: LoopSpec(invariants=["translated_value == TR(_i0)", "found_decimal_separator == FOUND(_i0)", "not STRAY(_i0)"], havoc={"translated_value": STR, "found_decimal_separator": BOOL, "character_to_process": STR}, unfolds=[unfold])},
                expect=["return", "FieldValueError"], n_loops=1, modifies=[], raises_only_props=["C02", "C10"])
        def m_decimal(ex, st, fn, args, kw):
            v = lift(args[0]).z
            for s2, b in ex.fork(st, Sym(BOOL, dp(ex)(v))):
                if b: yield s2, Sym(DEC, dof(ex)(v))
                else: yield s2, Raise(ex.new_builtin_exc(s2, "InvalidOperation", ["invalid literal"]))
        return {"contract": c, "callees": {"ref:DecimalRange.validate": m_range_validate_pred("in_rule_range", "dec"), "builtin:decimal.Decimal": m_decimal},
                "spec_functions": {"TR": lambda ex, st, k: Sym(STR, TR(lift(k).z)), "FOUND": lambda ex, st, k: Sym(BOOL, FOUND(lift(k).z)), "STRAY": lambda ex, st, k: Sym(BOOL, STRAY(lift(k).z))},
                "assumptions": ["spec function TR(k): the first k characters with the decimal separator replaced by '.' and thousands separators removed (ground-unfolded at the loop index)",
                                "A-DEC: decimal.Decimal(text) abstract partial function raising only InvalidOperation; valid_range.validate through the verified DecimalRange.validate contract (rejects non-finite values)",
                                "DataFormat invariant: decimal separator in {'.', ','}, thousands separator in {',', '.', ''}, different from each other (C11)"]}
    return ProofUnit("fields.DecimalFieldFormat.validated_value", "Decimal.validated_value: separator translation loop against the spec function TR; at most one decimal separator; no thousands separator after it", ["C02"], make, None)


# ---------------------------------------------------------------- Choice / Constant / Text
def unit_choice_constant_text():
    def make(ctx):
        out = []
        def setup_choice(ex, st):
            ch, c = fresh(UFList(STR), "choices"); st.pc.extend(c); base_field(ex, st, "ChoiceFieldFormat", {"choices": ch}); st.ghost["choices"] = ch
        def member(ex, st):
            ch = st.ghost["choices"]; i = z3.Int("i!ch"); return z3.Exists([i], z3.And(0 <= i, i < ch.length, ch.at(i) == G(st, "value")))
        out.append({"contract": Contract("fields.ChoiceFieldFormat.validated_value", setup_choice,
                        returns=[Clause(lambda ex, st: Sym(BOOL, z3.And(member(ex, st), lift(st.ghost["__result__"]).z == G(st, "value"))), "accepted-only-exactly-one-of-the-listed-values-(case-sensitive)-returned-unchanged", props=["C02"])],
                        raises={"FieldValueError": [Clause(lambda ex, st: Sym(BOOL, z3.Not(member(ex, st))), "rejected-only-if-not-listed", props=["C02"])]}, expect=["return", "FieldValueError"], n_loops=0, modifies=[], raises_only_props=["C02", "C10"]),
                    "callees": {"_tools.human_readable_list": ModelContract(m_opaque_str)}, "label": "Choice"})
        def setup_const(ex, st):
            k = fresh(STR, "constant")[0]; base_field(ex, st, "ConstantFieldFormat", {"_constant": k}); st.ghost["k"] = k
        out.append({"contract": Contract("fields.ConstantFieldFormat.validated_value", setup_const,
                        returns=[Clause(lambda ex, st: Sym(BOOL, z3.And(G(st, "value") == G(st, "k"), lift(st.ghost["__result__"]).z == G(st, "value"))), "accepted-only-the-constant-itself", props=["C02"])],
                        raises={"FieldValueError": [Clause(lambda ex, st: Sym(BOOL, G(st, "value") != G(st, "k")), "rejected-only-if-different", props=["C02"])]}, expect=["return", "FieldValueError"], n_loops=0, modifies=[], raises_only_props=["C02", "C10"]),
                    "label": "Constant"})
        def setup_text(ex, st): base_field(ex, st, "TextFieldFormat", {})
        out.append({"contract": Contract("fields.TextFieldFormat.validated_value", setup_text,
                        returns=[Clause(lambda ex, st: Sym(BOOL, lift(st.ghost["__result__"]).z == G(st, "value")), "text-accepts-anything-unchanged", props=["C02"])], raises={}, expect=["return"], n_loops=0, modifies=[], raises_only_props=["C02", "C10"]),
                    "label": "Text"})
        return out
    return ProofUnit("fields.Choice+Constant+Text.validated_value", "Choice / Constant / Text validated_value: membership, equality, identity", ["C02"], make, None)


# ---------------------------------------------------------------- DateTime / RegEx / Pattern: cutplace's share around strptime and re
def unit_datetime_regex_pattern():
    TT = Abs("StructTime")
    def make(ctx):
        out = []
        for is_excel in (False, True):
            for has_time in (False, True):
                def setup_dt(ex, st, is_excel=is_excel, has_time=has_time):
                    self, value = base_field(ex, st, "DateTimeFieldFormat", {"strptime_format": fresh(STR, "strptime_format")[0], "human_readable_format": fresh(STR, "hr")[0], "_has_time": has_time, "_has_date": True})
                    st.heap[st.ghost["df"].oid]["_format"] = "excel" if is_excel else fresh(STR, "fmt")[0]
                    if not is_excel: st.pc.append(lift(st.heap[st.ghost["df"].oid]["_format"]).z != "excel")
                def eff(ex, st, is_excel=is_excel, has_time=has_time):
                    v = G(st, "value"); suf = z3.StringVal(" 00:00:00")
                    if is_excel and not has_time: return z3.If(z3.SuffixOf(suf, v), z3.SubString(v, 0, z3.Length(v) - 9), v)
                    return v
                def m_strptime(ex, st, fn, args, kw):
                    okz = ex.absfun_s("strptime_ok", [z3.StringSort()] * 2, z3.BoolSort())(lift(args[0]).z, lift(args[1]).z)
                    for s2, b in ex.fork(st, Sym(BOOL, okz)):
                        if b: yield s2, Sym(TT, ex.absfun_s("strptime_value", [z3.StringSort()] * 2, sort_of(TT))(lift(args[0]).z, lift(args[1]).z))
                        else: yield s2, Raise(ex.new_builtin_exc(s2, "ValueError", ["does not match format"]))
                def acc(ex, st, eff=eff):
                    fmt = lift(st.heap[st.ghost["this"].oid]["strptime_format"]).z
                    return ex.absfun_s("strptime_ok", [z3.StringSort()] * 2, z3.BoolSort())(eff(ex, st), fmt), ex.absfun_s("strptime_value", [z3.StringSort()] * 2, sort_of(TT))(eff(ex, st), fmt)
                out.append({"contract": Contract("fields.DateTimeFieldFormat.validated_value", setup_dt,
                                returns=[Clause(lambda ex, st, acc=acc: Sym(BOOL, z3.And(acc(ex, st)[0], lift(st.ghost["__result__"]).z == acc(ex, st)[1])),
                                                "accepted-only-what-strptime-accepts-for-the-translated-layout-(Excel-date-only-fields-ignore-a-trailing-00:00:00)-returned-as-its-time-tuple", props=["C02"])],
                                raises={"FieldValueError": [Clause(lambda ex, st, acc=acc: Sym(BOOL, z3.Not(acc(ex, st)[0])), "rejected-only-if-strptime-rejects", props=["C02"])]},
                                expect=["return", "FieldValueError"], n_loops=0, modifies=[], raises_only_props=["C02", "C10"]),
                            "callees": {"builtin:time.strptime": m_strptime, "builtin:sys.exc_info": lambda ex, st, fn, a, k: iter([(st, (None, Opaque(), None))])},
                            "label": "DateTime %s %s" % ("excel" if is_excel else "not excel", "with time" if has_time else "date only"),
                            "assumptions": ["A-STRP: time.strptime is an abstract partial function of (text, format) raising only ValueError (audited against an independent calendar oracle)"]})
        for cls in ("RegExFieldFormat", "PatternFieldFormat"):
            def setup_re(ex, st, cls=cls):
                rx = Ref("Regex"); st.heap[rx.oid] = {}; base_field(ex, st, cls, {"regex": rx, "pattern": fresh(STR, "pattern")[0]})
            def m_match(ex, st, recv, args, kw):
                okz = ex.absfun_s("regex_matches", [z3.StringSort()], z3.BoolSort())(lift(args[0]).z)
                for s2, b in ex.fork(st, Sym(BOOL, okz)):
                    yield s2, (Ref("Match") if b else None)
            mz = lambda ex, st: ex.absfun_s("regex_matches", [z3.StringSort()], z3.BoolSort())(G(st, "value"))
            out.append({"contract": Contract("fields.%s.validated_value" % cls, setup_re,
                            returns=[Clause(lambda ex, st, mz=mz: Sym(BOOL, z3.And(mz(ex, st), lift(st.ghost["__result__"]).z == G(st, "value"))), "accepted-only-if-the-compiled-expression-matches-from-the-first-character-value-returned-unchanged", props=["C02"])],
                            raises={"FieldValueError": [Clause(lambda ex, st, mz=mz: Sym(BOOL, z3.Not(mz(ex, st))), "rejected-only-if-no-match", props=["C02"])]},
                            expect=["return", "FieldValueError"], n_loops=0, modifies=[], raises_only_props=["C02", "C10"]),
                        "callees": {"ref:Regex.match": m_match}, "label": cls,
                        "assumptions": ["A-RE: regex.match(value) anchors at the first character (re semantics; fnmatch.translate patterns match entirely); audited with an independent glob matcher"]})
        # constructors: the expression compiled is the rule (Pattern: fnmatch.translate(rule)) with exactly IGNORECASE | MULTILINE
        for cls in ("RegExFieldFormat", "PatternFieldFormat"):
            def setup_init(ex, st, cls=cls):
                self = Ref(cls); st.heap[self.oid] = {}
                df = Ref("DataFormat"); st.heap[df.oid] = {"_format": "delimited"}
                rule = fresh(STR, "rule")[0]
                st.frames[-1].env.update({"self": self, "field_name": fresh(STR, "fname")[0], "is_allowed_to_be_empty": fresh(BOOL, "e")[0], "length": "", "rule": rule, "data_format": df})
                st.pc.append(z3.Length(lift(st.frames[-1].env["field_name"]).z) > 0)
                st.ghost.update({"rule": rule, "compiled": None, "this": self})
            def m_compile(ex, st, fn, args, kw, cls=cls):
                st.ghost["compiled"] = (args[0], args[1] if len(args) > 1 else kw.get("flags"))
                if cls == "RegExFieldFormat":       # a user-written expression may be broken; the translation of a glob always compiles (A-RE, audited)
                    sb = st.copy(); yield sb, Raise(ex.new_builtin_exc(sb, "error", ["bad pattern"]))
                r = Ref("Regex"); st.heap[r.oid] = {}; yield st, r
            def m_translate(ex, st, fn, args, kw):
                yield st, Sym(STR, ex.absfun_s("fnmatch_translate", [z3.StringSort()], z3.StringSort())(lift(args[0]).z))
            def m_range_ctor(ex, st, info, args, kw):
                r = Ref("Range"); st.heap[r.oid] = {"_items": None}; yield st, r
            def compiled_ok(ex, st, cls=cls):
                c = st.ghost["compiled"]
                if c is None: return Sym(BOOL, z3.BoolVal(False))
                want = G(st, "rule") if cls == "RegExFieldFormat" else ex.absfun_s("fnmatch_translate", [z3.StringSort()], z3.StringSort())(G(st, "rule"))
                return Sym(BOOL, z3.And(lift(c[0]).z == want, z3.BoolVal(c[1] == (_re.IGNORECASE | _re.MULTILINE))))
            out.append({"contract": Contract("fields.%s.__init__" % cls, setup_init,
                            returns=[Clause(compiled_ok, "compiles-the-rule-(Pattern:-its-glob-translation)-with-exactly-IGNORECASE-|-MULTILINE", props=["C02"]), _c_empty_value("")],
                            raises={"InterfaceError": []}, expect=["return"], n_loops=0, raises_only_props=["C02", "C10"]),
                        "callees": {"builtin:re.compile": m_compile, "builtin:fnmatch.translate": m_translate, "class:Range": m_range_ctor}, "label": cls + ".__init__"})
        return out
    return ProofUnit("fields.DateTime+RegEx+Pattern", "DateTime / RegEx / Pattern: cutplace's share around time.strptime and re (suffix handling, flags, verdict, value returned)", ["C02", "C10"], make, None)


# =====================================================================================================================
# bounded stand-ins and axiom audits for C02 (native, labelled bounded)
# =====================================================================================================================
def _len_items(desc):
    """independent parse of the tiny length grammar used by the sweep: items 'a', 'a...b', 'a...', '...b'"""
    items = []
    for part in desc.split(","):
        part = part.strip()
        if "..." in part:
            a, b = part.split("..."); items.append((int(a) if a else None, int(b) if b else None))
        else: items.append((int(part), int(part)))
    return items


def unit_length_range_sweep():
    def run(ctx):
        from cutplace import ranges, fields, data, errors
        singles = [str(a) for a in range(1, 6)] + ["%d...%d" % (a, b) for a in range(0, 6) for b in range(max(a, 1), 6)] + ["%d..." % a for a in range(0, 6)] + ["...%d" % b for b in range(1, 6)]
        descs = singles + ["1, 3...4", "2, 5...", "...1, 4", "1...2, 4...5"]
        probes = sorted({s * (10 ** k + d) for k in range(0, 8) for d in (-1, 0, 1) for s in (1, -1)} | set(range(-1100, 1101)))
        def cases():
            for d in descs: yield d
        def check(d):
            items = _len_items(d)
            try: r = ranges.create_range_from_length(ranges.Range(d))
            except Exception as e: return {"expected": "a range for length %r" % d, "observed": repr(e)}
            for n in probes:
                L = len(str(n)); want = any((lo is None or lo <= L) and (hi is None or L <= hi) for lo, hi in items)
                try: r.validate("x", n); got = True
                except errors.RangeValueError: got = False
                if got != want: return {"expected": "%d (%d characters) %s" % (n, L, "accepted" if want else "rejected"), "observed": "accepted" if got else "rejected"}
            return None
        r1 = sweep("C02/bounded/create_range_from_length: n accepted iff len(str(n)) fits the length", cases(), check, "bounded",
                   "%d length descriptions (every 1-item description with limits 0..5 and open ends, 4 two-item ones) x %d probe integers (all of -1100..1100 and +-(10^k + {-1,0,1}) for k <= 7)" % (len(descs), len(probes)),
                   describe=lambda d: {"length": d}, function="ranges.create_range_from_length", unit="C02.sweep", props=["C02"])
        # Integer field: rule / length / default range selection, through the real constructor
        def int_cases():
            df = ["delimited", "fixed"]
            for fmt in df:
                for length, rule in (("", ""), ("", "-5...5"), ("", "10..."), ("3", ""), ("1...3", ""), ("2...3", ""), ("2", ""), ("3", "-99...999"), ("2", "10...99")):
                    if fmt == "fixed" and ("..." in length or length == ""): continue
                    yield (fmt, length, rule)
        def int_check(c):
            fmt, length, rule = c
            f = data.DataFormat(fmt); f.validate()
            fld = fields.IntegerFieldFormat("n", False, length, rule, f)
            def want(n):
                if rule:
                    lo, hi = rule.split("..."); return (lo == "" or int(lo) <= n) and (hi == "" or n <= int(hi))
                if length:
                    items = _len_items(length) if fmt != "fixed" else [(1, int(length))]
                    return any((lo is None or lo <= len(str(n))) and (hi is None or len(str(n)) <= hi) for lo, hi in items)
                return -2**31 <= n <= 2**31 - 1
            for n in [0, 1, -1, 5, -5, 6, -6, 9, 10, 99, 100, -9, -10, -99, -100, 999, 1000, 2**31 - 1, 2**31, -2**31, -2**31 - 1]:
                text = str(n)
                if length and fmt != "fixed" and not any((lo is None or lo <= len(text)) and (hi is None or len(text) <= hi) for lo, hi in _len_items(length)): exp = False
                elif fmt == "fixed" and len(text) > int(length): exp = False
                else: exp = want(n)
                try: got = fld.validated(text); obs = True
                except errors.FieldValueError: obs = False
                if obs != exp or (obs and got != n): return {"expected": "%s %s" % (text, "accepted as int" if exp else "rejected"), "observed": "accepted %r" % (got,) if obs else "rejected"}
            for bad in ("x", "1.0", "1e3", "0x10", " ", "--1", "1_0" if False else "1 0"):
                try: fld.validated(bad); return {"expected": "%r rejected" % bad, "observed": "accepted"}
                except errors.FieldValueError: pass
            # "with only a length given, any integer whose text fits that length": integers written with leading zeros (recorded finding K-17 for lengths with a lower limit of 2 or more)
            if length and not rule and fmt != "fixed":
                for text, n in (("05", 5), ("00", 0), ("007", 7), ("-07", -7), ("010", 10)):
                    fits = any((lo is None or lo <= len(text)) and (hi is None or len(text) <= hi) for lo, hi in _len_items(length))
                    try: got = fld.validated(text); obs = True
                    except errors.FieldValueError: obs = False
                    if obs == fits and (not obs or got == n): continue
                    if known17 and fits and not obs and any(lo is not None and lo >= 2 for lo, hi in _len_items(length)): k17.append((length, text)); continue
                    return {"expected": "%r %s" % (text, "accepted as %d" % n if fits else "rejected"), "observed": "accepted %r" % (got,) if obs else "rejected"}
            return None
        known17 = findings.is_known("K-17", "C02"); k17 = []
        r2 = sweep("C02/bounded/Integer fields: rule, length-derived and default ranges", int_cases(), int_check, "bounded", "delimited and fixed formats x 7 (length, rule) declarations x 21 boundary integers + 6 non-integers",
                   describe=lambda c: {"format": c[0], "length": c[1], "rule": c[2]}, function="fields.IntegerFieldFormat", unit="C02.sweep", props=["C02"])
        out_ = [r1, r2]
        if k17:
            out_.append(Result("C02/K-17 witness: a length-only Integer field with a lower length of 2 or more rejects integers written with leading zeros (%s)" % ", ".join("%s under length %s" % (t, l) for l, t in k17[:4]), "bounded", FAILED, "native",
                               finding="K-17", cases=len(k17), props=["C02"], detail=repr(k17[:6]), replay={"verdict": "confirmed", "input": {"length": k17[0][0], "cell": k17[0][1]}, "expected": "accepted (an integer whose text fits the length)", "observed": "rejected"}))
        return out_
    return NativeUnit("C02.sweep", "bounded stand-in for create_range_from_length (string-built range text) and Integer range selection", ["C02"], run, kind="bounded")


def unit_types_sweep():
    def run(ctx):
        import decimal, time as _time
        from cutplace import fields, data, errors
        res = []
        def fmt_obj(name, dec=".", thou="", defer=False):
            f = data.DataFormat(name)
            def props():
                if name in ("delimited", "fixed"):
                    if dec != ".": f.set_property("decimal separator", dec)
                    if thou: f.set_property("thousands separator", thou)
                f.validate()
            if defer: return f, props       # the property rows of a CID may follow its field rows
            props(); return f
        # --- Decimal: both separator conventions, all formats
        def dec_cases():
            for name, dec, thou in (("delimited", ".", ""), ("delimited", ".", ","), ("delimited", ",", "."), ("fixed", ",", "."), ("excel", ".", ""), ("ods", ".", ""), ("delimited", ",", ""), ("fixed", ",", ""),
                                    ("late:delimited", ",", "."), ("late:fixed", ",", ""), ("early:delimited", ",", "."), ("early:fixed", ",", "")):
                for rule in ("", "-10.5...100", "0..."):
                    yield (name, dec, thou, rule)
        def dec_check(c):
            name, dec, thou, rule = c
            if name.startswith(("late:", "early:")):
                early = name.startswith("early:"); name = name.split(":")[1]; fobj, later = fmt_obj(name, dec, thou, defer=True)
                fld = fields.DecimalFieldFormat("d", False, "8" if name == "fixed" else "", rule, fobj)
                if early:        # the field is used once before the property rows arrive (as the example of its own row is): nothing of that use may stick
                    try: fld.validated("1")
                    except errors.FieldValueError: pass
                later()
            else:
                fld = fields.DecimalFieldFormat("d", False, "8" if name == "fixed" else "", rule, fmt_obj(name, dec, thou))
            lo, hi = (decimal.Decimal(x) if x else None for x in (rule.split("...") if rule else ("-9999999999999999999.999999999999", "9999999999999999999.999999999999")))
            plain = ["0", "1", "-1", "1.5", "-10.5", "-10.51", "100", "100.01", "99.999", "1234.5", "0.001"]
            if name != "fixed":       # numerals with more significant digits than the default decimal context keeps (28): compared and returned exactly
                plain += ["100.00000000000000000000000000001", "99.99999999999999999999999999999", "0.00000000000000000000000000000001", "-10.50000000000000000000000000001"]
            for p in plain:
                d = decimal.Decimal(p); want = (lo is None or lo <= d) and (hi is None or d <= hi)
                text = p.replace(".", dec)
                if thou and abs(d) >= 1000: text = text.replace("1234", "1" + thou + "234")
                try: got = fld.validated(text); obs = True
                except errors.FieldValueError: obs = False
                except Exception as e: return {"expected": "%r %s" % (text, "accepted" if want else "FieldValueError"), "observed": repr(e)}
                if obs != want or (obs and got != d): return {"expected": "%r %s" % (text, "accepted as %s" % d if want else "rejected"), "observed": "accepted %r" % (got,) if obs else "rejected"}
            other = "," if dec == "." else "."
            for bad in ["1" + dec + "2" + dec + "3", "abc", "1" + dec + "5x", "NaN", "Infinity", "--1"] + (["1" + dec + "5" + thou + "0"] if thou else ["1" + other + "5"] if name in ("delimited", "fixed") and other != thou else []):
                try: fld.validated(bad); return {"expected": "%r rejected" % bad, "observed": "accepted"}
                except errors.FieldValueError: pass
                except Exception as e: return {"expected": "%r rejected with a FieldValueError" % bad, "observed": repr(e)}
            return None
        res.append(sweep("C02/bounded/Decimal fields", dec_cases(), dec_check, "bounded", "12 format / separator conventions (four with the separators declared after the field, two of them after the field was already used once) x 3 rules x 11 numerals (+ 4 with 29-33 significant digits) written with the format's separators + malformed numerals",
                         describe=lambda c: dict(zip(("format", "decimal_separator", "thousands_separator", "rule"), c)), function="fields.DecimalFieldFormat", unit="C02.types", props=["C02"]))
        # --- Choice / Constant
        def cc_check(c):
            f = fmt_obj("delimited")
            ch = fields.ChoiceFieldFormat("c", False, "", 'red, "green", Blue, "ä b"', f)
            for v, want in (("red", True), ("green", True), ("Blue", True), ("ä b", True), ("Red", False), ("blue", False), ("gree", False), ("red ", False), ("re", False)):
                try: ok_ = ch.validated(v) == v
                except errors.FieldValueError: ok_ = False
                if ok_ != want: return {"expected": "Choice %r %s" % (v, "accepted" if want else "rejected"), "observed": "accepted" if ok_ else "rejected"}
            # quoted values lose exactly their two delimiting quotes, whatever they contain
            ch2 = fields.ChoiceFieldFormat("c", False, "", """ "rock 'n'", "6'", '"x"', "it's" """.strip(), f)
            for v, want in (("rock 'n'", True), ("6'", True), ('"x"', True), ("it's", True), ("rock 'n", False), ("6", False), ("x", False)):
                try: ok_ = ch2.validated(v) == v
                except errors.FieldValueError: ok_ = False
                if ok_ != want: return {"expected": "Choice (values containing quote characters) %r %s" % (v, "accepted" if want else "rejected"), "observed": "accepted" if ok_ else "rejected"}
            k2 = fields.ConstantFieldFormat("k", False, "", '"5' + "'" + '"', f)
            for v, want in (("5'", True), ("5", False)):
                try: ok_ = k2.validated(v) == v
                except errors.FieldValueError: ok_ = False
                if ok_ != want: return {"expected": "Constant \"5'\" %r %s" % (v, "accepted" if want else "rejected"), "observed": "accepted" if ok_ else "rejected"}
            k = fields.ConstantFieldFormat("k", False, "", '"Abc"', f)
            for v, want in (("Abc", True), ("abc", False), ("Abc ", False), ("Ab", False)):
                try: ok_ = k.validated(v) == v
                except errors.FieldValueError: ok_ = False
                if ok_ != want: return {"expected": "Constant %r %s" % (v, "accepted" if want else "rejected"), "observed": "accepted" if ok_ else "rejected"}
            t = fields.TextFieldFormat("t", False, "", "", f)
            for v in ("x", " ", "ä€", "a\nb"):
                if t.validated(v) != v: return {"expected": "Text returns %r" % v, "observed": repr(t.validated(v))}
            return None
        res.append(sweep("C02/bounded/Choice, Constant, Text", [0], cc_check, "bounded", "one declaration per type x listed values, case variants, prefixes", function="fields.Choice/Constant/Text", unit="C02.types", props=["C02"]))
        # --- Pattern (independent glob matcher) and RegEx subset
        def glob(p, s):
            p, s = p.lower(), s.lower()
            if not p: return not s
            if p[0] == "*": return any(glob(p[1:], s[i:]) for i in range(len(s) + 1))
            if not s: return False
            if p[0] == "?" or p[0] == s[0]: return glob(p[1:], s[1:])
            return False
        def pat_cases():
            vals = ["", "a", "ab", "abc", "Ab", "b", "ba", "aXb", "a.b", "ab\n"]
            for p in ("a*", "*b", "a?", "?", "a*b", "*", "ab", "a.b", "A?"):
                for v in vals:
                    if v: yield (p, v)
        def pat_check(c):
            p, v = c
            fld = fields.PatternFieldFormat("p", False, "", p, fmt_obj("delimited"))
            try: ok_ = fld.validated(v) == v
            except errors.FieldValueError: ok_ = False
            want = glob(p, v)
            return None if ok_ == want else {"expected": "pattern %r %s %r" % (p, "matches" if want else "does not match", v), "observed": "accepted" if ok_ else "rejected"}
        res.append(sweep("C02/audit/Pattern against an independent glob matcher (A-RE)", pat_cases(), pat_check, "audit", "9 globs x 9 values, case-insensitive, whole-value match", function="fields.PatternFieldFormat", unit="C02.types", props=["C02"]))
        def rx_cases():
            for rx, v, want in (("a[0-9]", "a1", True), ("a[0-9]", "A1", True), ("a[0-9]", "a12", True), ("a[0-9]", "ba1", False), ("a[0-9]$", "a12", False), ("b+", "abb", False), ("b+", "bba", True), ("^x", "\nx", False), ("x|y", "y", True), ("(ab)+c", "ababc", True), ("(ab)+c", "abab", False)):
                yield (rx, v, want)
        def rx_check(c):
            rx, v, want = c
            fld = fields.RegExFieldFormat("r", False, "", rx, fmt_obj("delimited"))
            try: ok_ = fld.validated(v) == v
            except errors.FieldValueError: ok_ = False
            return None if ok_ == want else {"expected": "regex %r %s %r from its first character (ignoring case)" % (rx, "matches" if want else "does not match", v), "observed": "accepted" if ok_ else "rejected"}
        res.append(sweep("C02/audit/RegEx subset (A-RE)", rx_cases(), rx_check, "audit", "11 hand-written (expression, value, verdict) triples: anchoring at the first character, case, alternation, groups", function="fields.RegExFieldFormat", unit="C02.types", props=["C02"]))
        # --- DateTime: layout translation (bounded stand-in) and strptime against an independent calendar (A-STRP)
        def leap(y): return y % 4 == 0 and (y % 100 != 0 or y % 400 == 0)
        def mdays(y, m): return [31, 29 if leap(y) else 28, 31, 30, 31, 30, 31, 31, 30, 31, 30, 31][m - 1]
        comps = {"DD": ("%02d", "d"), "MM": ("%02d", "m"), "YYYY": ("%04d", "y"), "YY": ("%02d", "yy"), "hh": ("%02d", "H"), "mm": ("%02d", "M"), "ss": ("%02d", "S")}
        def dt_cases():
            layouts = ["DD.MM.YYYY", "YYYY-MM-DD", "MM/DD/YY", "DD.MM.YYYY hh:mm:ss", "hh:mm", "YYYYMMDD", "DD%MM%YYYY", "YY-MM-DD hh:mm", "hh.mm.ss"]
            samples = [(2020, 2, 29, 0, 0, 0), (2019, 2, 29, 0, 0, 0), (2000, 2, 29, 23, 59, 59), (1900, 2, 29, 0, 0, 0), (2021, 4, 31, 0, 0, 0), (2021, 12, 31, 24, 0, 0), (2021, 1, 1, 12, 60, 0), (2021, 13, 1, 0, 0, 0), (2021, 0, 10, 0, 0, 0),
                       (2021, 6, 0, 0, 0, 0), (1999, 12, 31, 23, 59, 59), (2021, 11, 30, 7, 8, 61), (2021, 11, 30, 7, 8, 9)]
            if ctx.thorough:
                for y in (1999, 2000, 2023, 2024):
                    for m in range(1, 13):
                        for d in range(1, 33): samples.append((y, m, d, 0, 0, 0))
            for lay in layouts:
                for s in samples: yield (lay, s)
        def dt_check(c):
            lay, (y, m, d, H, M, S) = c
            import re
            toks = re.findall(r"YYYY|YY|DD|MM|hh|mm|ss|.", lay)
            vals = {"d": d, "m": m, "y": y, "yy": y % 100, "H": H, "M": M, "S": S}
            text = "".join((comps[t][0] % vals[comps[t][1]]) if t in comps else t for t in toks)
            used = {comps[t][1] for t in toks if t in comps}
            yy = y if "y" in used else ((2000 + y % 100 if y % 100 < 69 else 1900 + y % 100) if "yy" in used else 1900)
            mm_ = m if "m" in used else 1; dd = d if "d" in used else 1
            want = (1 <= mm_ <= 12 and 1 <= dd <= mdays(yy, mm_) if ("d" in used or "m" in used) else True) and (H <= 23 if "H" in used else True) and (M <= 59 if "M" in used else True) and (S <= 61 if "S" in used else True)
            fld = fields.DateTimeFieldFormat("t", False, "", lay, fmt_obj("delimited"))
            try: got = fld.validated(text); obs = True
            except errors.FieldValueError: obs = False
            if obs != want: return {"expected": "%r under layout %r %s" % (text, lay, "accepted" if want else "rejected"), "observed": "accepted" if obs else "rejected"}
            if obs:
                exp = {"y": got.tm_year == yy, "m": got.tm_mon == mm_, "d": got.tm_mday == dd, "H": got.tm_hour == H, "M": got.tm_min == M, "S": got.tm_sec == S, "yy": got.tm_year == yy}
                if not all(exp[k] for k in used): return {"expected": "time tuple denoting %r" % (text,), "observed": repr(tuple(got)[:6])}
            return None
        res.append(sweep("C02/bounded/DateTime layout translation and calendar (A-STRP)", dt_cases(), dt_check, "bounded",
                         "9 layouts built from DD MM YYYY YY hh mm ss, '%' and separators x 13 dates/times incl. leap days, day 31 in short months, hour 24, minute 60 (thorough: every day 1..32 of 4 years)",
                         describe=lambda c: {"layout": c[0], "date": c[1]}, function="fields.DateTimeFieldFormat", unit="C02.types", props=["C02"]))
        def xl_check(_):
            f = data.DataFormat("excel"); f.validate()
            fld = fields.DateTimeFieldFormat("t", False, "", "YYYY-MM-DD", f)
            if fld.validated("2020-02-29 00:00:00").tm_mday != 29: return {"expected": "Excel date-only cell with ' 00:00:00' accepted", "observed": "wrong value"}
            try: fld.validated("2020-02-29 00:00:01"); return {"expected": "other time suffix rejected", "observed": "accepted"}
            except errors.FieldValueError: pass
            full = fields.DateTimeFieldFormat("t", False, "", "DD.MM.YYYY hh:mm:ss", f)
            for text, hms in (("31.12.1999 00:00:00", (0, 0, 0)), ("31.12.1999 23:59:59", (23, 59, 59))):
                try: got = full.validated(text)
                except errors.FieldValueError as e: return {"expected": "Excel, rule with date and time: %r accepted" % text, "observed": "rejected: %s" % str(e)[:80]}
                if (got.tm_hour, got.tm_min, got.tm_sec) != hms: return {"expected": hms, "observed": tuple(got)[3:6]}
            return None
        res.append(sweep("C02/bounded/DateTime Excel suffix", [0], xl_check, "bounded", "date-only layout under format excel: ' 00:00:00' suffix ignored, other suffixes rejected", function="fields.DateTimeFieldFormat", unit="C02.types", props=["C02", "C17"]))
        return res
    return NativeUnit("C02.types", "bounded stand-ins / axiom audits per field type (Decimal separators, Choice/Constant/Text, Pattern, RegEx, DateTime)", ["C02"], run, kind="bounded")


# =====================================================================================================================
# ChoiceFieldFormat.__init__ / ConstantFieldFormat.__init__ : rule parsing at token level (C02)
# =====================================================================================================================
import token as TK
TOK = Tup(INT, STR)


def _tok_models():
    T2 = sort_of(TOK)
    def m_tokenize(ex, st, fn, args, kw):
        it = Ref("TokenIter"); st.heap[it.oid] = {"cursor": 0}; st.ghost["iter"] = it
        ex.obligations.append(Obligation("tokenizes-the-rule", st.pc, z3.BoolVal(args[0] is st.ghost["rule"]), "post", props=["C02"]))
        yield st, it
    def tok_next(ex, st, recv, args, kw):
        o = st.heap[recv.oid]; T = st.ghost["T"]; c = lift(o["cursor"]).z
        if not st.ghost.get("started"):
            sb = st.copy(); sb.ghost["tok_failed"] = True; mm = fresh(STR, "m")[0]; sb.pc.append(z3.Length(mm.z) > 0)
            yield from raise_new(ex, sb, "InterfaceError", [mm])          # tokenize_without_space converts tokenizer errors (verified shape of G-1)
        st.ghost["started"] = True
        if feasible(st.pc, c >= T.length):
            sb = st.copy(); sb.pc.append(c >= T.length); yield sb, Raise(ex.new_builtin_exc(sb, "StopIteration", []))
        st.pc.append(z3.And(c >= 0, c < T.length)); o["cursor"] = Sym(INT, c + 1)
        yield st, Sym(TOK, T.at(c))
    return m_tokenize, tok_next


def _field_init_env(ex, st, cls, rule, allowed_empty):
    self = Ref(cls); st.heap[self.oid] = {}
    df = Ref("DataFormat"); st.heap[df.oid] = {"_format": fresh(STR, "fmt")[0]}
    st.frames[-1].env.update({"self": self, "field_name": fresh(STR, "fname")[0], "is_allowed_to_be_empty": allowed_empty, "length": fresh(STR, "length")[0], "rule": rule, "data_format": df})
    st.pc.append(z3.Length(lift(st.frames[-1].env["field_name"]).z) > 0)
    return self


def _c_empty_value(expected):
    """C03: the type's empty value, fixed by the constructor (None for numbers and dates, '' for the text-like types)"""
    def c(ex, st):
        v = st.heap[st.ghost["this"].oid].get("_empty_value", "<unset>")
        return Sym(BOOL, z3.BoolVal(v is None if expected is None else (isinstance(v, str) and v == expected)))
    return Clause(c, "the-type's-empty-value-is-%s" % ("None" if expected is None else "the-empty-string"), props=["C03"])


def unit_choice_init():
    T2 = sort_of(TOK); ttype = T2.accessor(0, 0); ttext = T2.accessor(0, 1)
    def tt(t): return z3.If(ttype(t) == TK.STRING, z3.SubString(ttext(t), 1, z3.Length(ttext(t)) - 2), ttext(t))
    def is_comma(t): return z3.And(ttype(t) == TK.OP, ttext(t) == ",")
    def setup(ex, st):
        T, c = fresh(UFList(TOK), "T"); st.pc.extend(c)
        n = fresh(INT, "n")[0]; st.pc.append(n.z >= 0); st.pc.append(T.length == n.z + 1); st.pc.append(ttype(T.at(n.z)) == TK.ENDMARKER)
        j = z3.Int("j"); st.pc.append(z3.ForAll([j], z3.Implies(z3.And(0 <= j, j < n.z), ttype(T.at(j)) != TK.ENDMARKER)))
        rule = fresh(STR, "rule")[0]; ae = fresh(BOOL, "allowed_empty")[0]
        self = _field_init_env(ex, st, "ChoiceFieldFormat", rule, ae)
        st.ghost.update({"T": T, "n": n, "rule": rule, "this": self, "ae": ae, "started": False, "tok_failed": False})
    def m_range(ex, st, info, args, kw):
        r = Ref("Range"); st.heap[r.oid] = {"_items": None}; yield st, r
    def wf_upto(ex, st, k):
        T = st.ghost["T"]; kk = lift(k).z; j = z3.Int("j!cw")
        return Sym(BOOL, z3.ForAll([j], z3.Implies(z3.And(0 <= j, j < kk), z3.If(j % 2 == 0, z3.And(z3.Not(is_comma(T.at(j))), tt(T.at(j)) != ""), is_comma(T.at(j))))))
    def choices_upto(ex, st, lst, k):
        T = st.ghost["T"]; kk = lift(k).z; j = z3.Int("j!cu")
        if isinstance(lst, list): return Sym(BOOL, z3.And(z3.BoolVal(len(lst) == 0), kk <= 0))
        return Sym(BOOL, z3.And(lst.length == (kk + 1) / 2, z3.ForAll([j], z3.Implies(z3.And(0 <= j, j < lst.length), lst.at(j) == tt(T.at(2 * j))))))
    def cursor(ex, st): return st.heap[st.ghost["iter"].oid]["cursor"]
    def make(ctx):
        m_tokenize, tok_next = _tok_models()
        good = "wf_upto(n) and (n % 2 == 1 or n == 0) and (n > 0 or ae)"
        c = Contract("fields.ChoiceFieldFormat.__init__", setup,
                returns=[Clause(good, "accepted-only-a-rule-of-non-empty-values-separated-by-commas-without-trailing-comma-(no-values-only-if-the-field-may-be-empty)", props=["C02", "C09"]),
                         Clause("choices_upto(this.choices, n)", "the-choices-are-the-values-in-rule-order-(quoted-values-without-their-quotes)", props=["C02"]), _c_empty_value("")],
                raises={"InterfaceError": [Clause(lambda ex, st: Sym(BOOL, z3.Or(z3.BoolVal(bool(st.ghost["tok_failed"])), z3.Not(ex.spec(good, st).z))), "refused-only-if-the-rule-is-not-such-a-list", props=["C02", "C09"])]},
                loops={0: LoopSpec(invariants=["cursor() >= 1 and cursor() <= n + 1", "implies((cursor() - 1) % 2 == 1, cursor() - 1 == n)", "implies((cursor() - 1) % 2 == 0 and cursor() - 1 > 0, cursor() - 1 < n)", "wf_upto(cursor() - 1)", "choices_upto(this.choices, cursor() - 1)", "toky == T[cursor() - 1]"],
                                   havoc={"toky": TOK, "choice": STR, "previous_toky_text": Opt(STR), "this.choices": UFList(STR), "iter.cursor": INT})},
                expect=["return", "InterfaceError"], n_loops=1, raises_only_props=["C02", "C10"])
        return {"contract": c, "callees": {"_tools.tokenize_without_space": ModelContract(m_tokenize), "ref:TokenIter.__next__": tok_next, "class:Range": m_range},
                "spec_functions": {"wf_upto": wf_upto, "choices_upto": choices_upto, "cursor": cursor},
                "assumptions": ["A-TOK: tokenize_without_space(rule) delivers a finite token list ending in one ENDMARKER, or raises InterfaceError for untokenizable text (G-1)",
                                "_tools.token_text / is_comma_token / is_eof_token are executed as real code (inlined)"]}
    return ProofUnit("fields.ChoiceFieldFormat.__init__", "ChoiceFieldFormat.__init__: choices = values at even token positions, commas between, no trailing comma (token-level loop invariant)", ["C02", "C09", "C10"], make, None)


def unit_constant_init():
    T2 = sort_of(TOK); ttype = T2.accessor(0, 0); ttext = T2.accessor(0, 1)
    def tt(t): return z3.If(ttype(t) == TK.STRING, z3.SubString(ttext(t), 1, z3.Length(ttext(t)) - 2), ttext(t))
    def setup(ex, st):
        T, c = fresh(UFList(TOK), "T"); st.pc.extend(c)
        n = fresh(INT, "n")[0]; st.pc.append(n.z >= 0); st.pc.append(T.length == n.z + 1); st.pc.append(ttype(T.at(n.z)) == TK.ENDMARKER)
        j = z3.Int("j"); st.pc.append(z3.ForAll([j], z3.Implies(z3.And(0 <= j, j < n.z), ttype(T.at(j)) != TK.ENDMARKER)))
        rule = fresh(STR, "rule")[0]; ae = fresh(BOOL, "allowed_empty")[0]
        st.pc.append(z3.Implies(rule.z == "", n.z == 0))        # A-TOK: the empty text has no token but the end marker
        self = _field_init_env(ex, st, "ConstantFieldFormat", rule, ae)
        st.ghost.update({"T": T, "n": n, "rule": rule, "this": self, "ae": ae, "started": False, "tok_failed": False})
    def m_range(ex, st, info, args, kw):
        r = Ref("Range"); st.heap[r.oid] = {"_items": None}; yield st, r
    def constant(ex, st):
        T = st.ghost["T"]; return Sym(STR, z3.If(G(st, "n") == 0, z3.StringVal(""), tt(T.at(0))))
    def length_accepts(ex, st, k): return Sym(BOOL, ex.absfun_s("length_accepts", [z3.IntSort()], z3.BoolSort())(lift(k).z))
    def make(ctx):
        m_tokenize, tok_next = _tok_models()
        good = "n <= 1 and (ae == (rule == '')) and length_accepts(len(constant()))"
        c = Contract("fields.ConstantFieldFormat.__init__", setup,
                returns=[Clause(good, "accepted-only-a-single-token-rule-whose-length-fits-and-an-empty-rule-exactly-for-a-field-that-may-be-empty", props=["C02", "C09"]),
                         Clause("this._constant == constant()", "the-constant-is-the-rule's-single-value-(quoted-value-without-its-quotes)", props=["C02"]), _c_empty_value("")],
                raises={"InterfaceError": [Clause(lambda ex, st: Sym(BOOL, z3.Or(z3.BoolVal(bool(st.ghost["tok_failed"])), z3.Not(ex.spec(good, st).z))), "refused-only-if-the-rule-is-not-such-a-constant", props=["C02", "C09"])]},
                expect=["return", "InterfaceError"], raises_only_props=["C02", "C10"])
        return {"contract": c, "callees": {"_tools.tokenize_without_space": ModelContract(m_tokenize), "ref:TokenIter.__next__": tok_next, "class:Range": m_range,
                                           "ref:Range.validate": m_range_validate_pred("length_accepts")},
                "spec_functions": {"constant": constant, "length_accepts": length_accepts},
                "assumptions": ["A-TOK: tokenize_without_space(rule) delivers a finite token list ending in one ENDMARKER (only the ENDMARKER for the empty text), or raises InterfaceError for untokenizable text (G-1)",
                                "Range.validate is used through its verified contract (contracts/ranges.py) as the predicate length_accepts"]}
    return ProofUnit("fields.ConstantFieldFormat.__init__", "ConstantFieldFormat.__init__: the constant is the single token of the rule; empty rule iff the field may be empty; the length must admit it", ["C02", "C09", "C10"], make, None)


def unit_integer_init():
    ITEM = Tup(Opt(INT), Opt(INT)); its = sort_of(ITEM); OI = sort_of(Opt(INT))
    def int_text_len(z): return z3.Length(z3.If(z < 0, z3.Concat(z3.StringVal("-"), z3.IntToStr(-z)), z3.IntToStr(z)))
    def setup(ex, st):
        rule = fresh(STR, "rule")[0]; ae = fresh(BOOL, "allowed_empty")[0]; lt = fresh(STR, "length_text")[0]
        self = _field_init_env(ex, st, "IntegerFieldFormat", rule, ae)
        env = st.frames[-1].env; del env["length"]; env.update({"length_text": lt})
        st.ghost.update({"rule": rule, "this": self, "lt": lt, "range_failed": False, "from_length_failed": False, "fmt": st.heap[env["data_format"].oid]["_format"],
                         "rule_range": None, "length_range": None, "fixed_length_range": None, "derived": None, "default_range": None})
    def m_range(ex, st, info, args, kw):
        text = args[0]
        if True:
            sb = st.copy(); sb.ghost["range_failed"] = True; yield from raise_new(ex, sb, "InterfaceError")
        r = Ref("Range"); items, c = fresh(UFList(ITEM), "items"); st.pc.extend(c)
        lo = fresh(Opt(INT), "lo")[0]; hi = fresh(Opt(INT), "hi")[0]
        st.heap[r.oid] = {"_items": items, "_lower_limit": lo, "_upper_limit": hi, "_description": text}
        g = st.ghost
        if text is g["rule"]: g["rule_range"] = r
        elif text is g["lt"]: g["length_range"] = r
        elif isinstance(text, str): g["default_range"] = (r, text)
        else: g["fixed_length_range"] = (r, lift(text).z)
        yield st, r
    def m_from_length(ex, st, fn, args, kw):
        if True:
            sb = st.copy(); sb.ghost["from_length_failed"] = True; yield from raise_new(ex, sb, "RangeValueError")
        r = Ref("Range"); st.heap[r.oid] = {"_items": None}; st.ghost["derived"] = (r, args[0]); yield st, r
    def has(ex, st, name): 
        strip = ex.absfun_s("str_strip", [z3.StringSort()], z3.StringSort()); return strip(G(st, name)) != ""
    def fits(ex, z): return ex.absfun_s("length_accepts", [z3.IntSort()], z3.BoolSort())(int_text_len(z))
    def item_fits(ex, it):
        lo = its.accessor(0, 0)(it); hi = its.accessor(0, 1)(it)
        return z3.And(z3.Implies(OI.is_some(lo), fits(ex, OI.val(lo))), z3.Implies(OI.is_some(hi), fits(ex, OI.val(hi))))
    def fits_upto(ex, st, k):
        rr = st.ghost["rule_range"]; items = st.heap[rr.oid]["_items"]; j = z3.Int("j!fi"); kk = lift(k).z
        return Sym(BOOL, z3.ForAll([j], z3.Implies(z3.And(0 <= j, j < kk), item_fits(ex, items.at(j)))))
    def n_items(ex, st): return Sym(INT, st.heap[st.ghost["rule_range"].oid]["_items"].length)
    def fixed_ok(ex, st):
        L = st.ghost["length_range"]
        if L is None: return z3.BoolVal(True)
        lo = lift(st.heap[L.oid]["_lower_limit"]).z; hi = lift(st.heap[L.oid]["_upper_limit"]).z
        return z3.And(OI.is_some(lo), lo == hi)
    def c_valid_range(ex, st):
        """which range became valid_range, case by case"""
        g = st.ghost; vr = st.heap[g["this"].oid].get("valid_range"); hl = has(ex, st, "lt"); hr = has(ex, st, "rule"); fixed = G(st, "fmt") == "fixed"
        is_rule = z3.BoolVal(g["rule_range"] is not None and vr is g["rule_range"])
        L = g["length_range"]
        if g["derived"] is not None:
            d, src = g["derived"]
            if g["fixed_length_range"] is not None:
                fr, text = g["fixed_length_range"]; up = OI.val(lift(st.heap[L.oid]["_upper_limit"]).z)
                from_fixed = z3.And(z3.BoolVal(src is fr), text == z3.Concat(z3.StringVal("1..."), z3.If(up < 0, z3.Concat(z3.StringVal("-"), z3.IntToStr(-up)), z3.IntToStr(up))))
            else: from_fixed = z3.BoolVal(False)
            derived_ok = z3.And(z3.BoolVal(vr is d), z3.If(fixed, from_fixed, z3.BoolVal(src is L)))
        else: derived_ok = z3.BoolVal(False)
        dflt = g["default_range"]
        is_default = z3.BoolVal(dflt is not None and vr is dflt[0] and dflt[1] == "%d...%d" % (-2 ** 31, 2 ** 31 - 1))
        return Sym(BOOL, z3.If(hr, is_rule, z3.If(hl, derived_ok, is_default)))
    def c_good(ex, st):
        g = st.ghost; hl = has(ex, st, "lt"); hr = has(ex, st, "rule"); fixed = G(st, "fmt") == "fixed"
        allfit = fits_upto(ex, st, n_items(ex, st)).z if g["rule_range"] is not None else z3.BoolVal(True)
        return z3.And(z3.Implies(z3.And(hl, fixed), fixed_ok(ex, st)), z3.Implies(z3.And(hl, hr), allfit))
    def make(ctx):
        c = Contract("fields.IntegerFieldFormat.__init__", setup,
                returns=[Clause(c_valid_range, "valid-range-is-the-rule's-range-else-the-range-derived-from-the-length-(1...width-for-fixed)-else-the-signed-32-bit-range", props=["C02"]),
                         Clause(lambda ex, st: Sym(BOOL, c_good(ex, st)), "accepted-only-if-every-limit-of-the-rule-fits-the-length-and-a-fixed-length-is-one-number", props=["C02", "C09"]), _c_empty_value(None)],
                raises={"InterfaceError": [Clause(lambda ex, st: Sym(BOOL, z3.Or(z3.BoolVal(bool(st.ghost["range_failed"]) or bool(st.ghost["from_length_failed"])), z3.Not(c_good(ex, st)))),
                                                  "refused-only-for-a-broken-range-text-an-underivable-length-or-a-rule-limit-that-does-not-fit", props=["C02", "C09"])]},
                loops={0: LoopSpec(invariants=["fits_upto(_i0)"], havoc={"rule_item": ITEM, "partial_rule_limit": INT, "length_of_partial_rule_limit": INT}, locals_ok=("partial_rule_limits",))},
                expect=["return", "InterfaceError"], raises_only_props=["C02", "C10"])
        return {"contract": c, "callees": {"class:Range": m_range, "ranges.create_range_from_length": ModelContract(m_from_length), "ref:Range.validate": m_range_validate_pred("length_accepts")},
                "spec_functions": {"fits_upto": fits_upto},
                "assumptions": ["Range(text) is used through its verified contract (contracts/ranges_init.py): a Range with items / limits, or InterfaceError",
                                "create_range_from_length is used through its contract (bounded: fields.length-range sweep): a Range or RangeValueError",
                                "Range.validate is used through its verified contract as the predicate length_accepts; str(int) is the decimal text with a leading '-' for negatives (A-STR)"]}
    return ProofUnit("fields.IntegerFieldFormat.__init__", "IntegerFieldFormat.__init__: which range becomes valid_range (rule / derived from length / 32 bit) and the length-vs-rule consistency loop", ["C02", "C09", "C10"], make, None)


_RA = None
def _replace_all(s, a, b):
    """SMT-LIB str.replace_all(s, a, b) (not exposed by z3py: built once through the SMT-LIB parser, then instantiated)"""
    global _RA
    if _RA is None:
        f = z3.parse_smt2_string('(declare-const x String)(declare-const a String)(declare-const b String)(assert (= (str.replace_all x a b) x))')
        _RA = f[0].arg(0)
    t = _RA
    return z3.substitute(t, (t.arg(0), s), (t.arg(1), z3.StringVal(a)), (t.arg(2), z3.StringVal(b)))


class DateTimeInitOracle(Oracle):
    """native twin of the DateTimeFieldFormat.__init__ contract: decides what the replace_all chain leaves undecided"""
    bound = "all rules of up to 3 pieces over DD MM YYYY YY hh mm ss % . : Y D h"
    quick_cases = 3000; thorough_cases = 40000
    PIECES = ("DD", "MM", "YYYY", "YY", "hh", "mm", "ss", "%", ".", ":", "Y", "D", "h")
    def cases(self, ctx):
        for n in (1, 2, 3, 4) if ctx.thorough else (1, 2, 3):
            for c in itertools.product(self.PIECES, repeat=n): yield "".join(c)
    def check(self, rule):
        from cutplace import data, fields, errors
        exp = rule
        for a, b in (("%", "%%"), ("DD", "%d"), ("MM", "%m"), ("YYYY", "%Y"), ("YY", "%y"), ("hh", "%H"), ("mm", "%M"), ("ss", "%S")): exp = exp.replace(a, b)
        twice = any(exp.count(d) > 1 for d in ("%d", "%m", "%y", "%Y", "%H", "%M", "%S"))      # a layout naming the same part twice is no layout time.strptime can read
        try: f = fields.DateTimeFieldFormat("d", False, "", rule, data.DataFormat(data.FORMAT_DELIMITED))
        except errors.InterfaceError:
            return None if twice else {"expected": "rule accepted", "observed": "InterfaceError"}
        if twice: return {"expected": "InterfaceError (a placeholder occurs twice)", "observed": "accepted"}
        ht = any(d in exp for d in ("%H", "%M", "%S")); hd = any(d in exp for d in ("%d", "%m", "%y", "%Y"))
        got = (f.strptime_format, f._has_time, f._has_date)
        if got != (exp, ht, hd): return {"expected": repr((exp, ht, hd)), "observed": repr(got)}
        try: f.validated_value("x")        # an accepted rule can be used: a value is accepted or rejected, nothing else
        except errors.FieldValueError: pass
    def describe(self, rule): return {"DateTime rule": rule}


def unit_datetime_init():
    PAIRS = (("%", "%%"), ("DD", "%d"), ("MM", "%m"), ("YYYY", "%Y"), ("YY", "%y"), ("hh", "%H"), ("mm", "%M"), ("ss", "%S"))
    def setup(ex, st):
        rule = fresh(STR, "rule")[0]; ae = fresh(BOOL, "allowed_empty")[0]
        self = _field_init_env(ex, st, "DateTimeFieldFormat", rule, ae)
        st.ghost.update({"rule": rule, "this": self})
    def m_range(ex, st, info, args, kw):
        r = Ref("Range"); st.heap[r.oid] = {"_items": None}; yield st, r
    def m_replace(ex, st, recv, args, kw):
        # Python's str.replace(a, b) with a non-empty literal a is SMT-LIB str.replace_all (leftmost, non-overlapping)
        if not (isinstance(args[0], str) and args[0] and isinstance(args[1], str)): raise Unsupported("replace with a non-literal pattern")
        yield st, Sym(STR, _replace_all(lift(recv).z, args[0], args[1]))
    def expected(ex, st):
        z = G(st, "rule")
        for a, b in PAIRS: z = _replace_all(z, a, b)
        return z
    def c_format(ex, st):
        o = st.heap[st.ghost["this"].oid]
        return Sym(BOOL, z3.And(lift(o["strptime_format"]).z == expected(ex, st), z3.BoolVal(o["human_readable_format"] is st.ghost["rule"])))
    DIRECTIVES = ("%d", "%m", "%y", "%Y", "%H", "%M", "%S")
    TW = z3.Function("occurs_more_than_once", z3.StringSort(), z3.StringSort(), z3.BoolSort())
    def twice(f, d):        # spec predicate 'directive d occurs more than once in f' = what str.count(d) > 1 decides (kept uninterpreted: the replace chain is hard enough for the string solvers; the native twin evaluates it)
        return TW(f, z3.StringVal(d))
    def m_count(ex, st, recv, args, kw):
        if not (isinstance(args[0], str) and len(args[0]) == 2 and args[0][0] != args[0][1]): raise Unsupported("str.count of something else than a two-character directive")
        n = fresh(INT, "count")[0]; st.pc.append(n.z >= 0); st.pc.append((n.z > 1) == twice(lift(recv).z, args[0]))
        yield st, n
    def c_once(ex, st):
        f = expected(ex, st)
        return Sym(BOOL, z3.Not(z3.Or(*[twice(f, d) for d in DIRECTIVES])))
    def c_twice(ex, st):
        f = expected(ex, st)
        return Sym(BOOL, z3.Or(*[twice(f, d) for d in DIRECTIVES]))
    def c_flags(ex, st):
        o = st.heap[st.ghost["this"].oid]; f = lift(o["strptime_format"]).z
        return Sym(BOOL, z3.And(lift(o["_has_time"]).z == z3.Or(*[z3.Contains(f, d) for d in ("%H", "%M", "%S")]), lift(o["_has_date"]).z == z3.Or(*[z3.Contains(f, d) for d in ("%d", "%m", "%y", "%Y")])))
    def make(ctx):
        c = Contract("fields.DateTimeFieldFormat.__init__", setup,
                returns=[Clause(c_format, "strptime-format-is-the-rule-with-%-doubled-then-DD-MM-YYYY-YY-hh-mm-ss-replaced-by-their-directives-in-that-order", props=["C02"]),
                         Clause(c_flags, "has-time-/-has-date-iff-the-format-contains-a-time-/-date-directive", props=["C02", "C16"]),
                         Clause(c_once, "accepted-layouts-name-every-part-at-most-once-(time.strptime-can-read-them)", props=["C02", "C09", "C10"]), _c_empty_value(None)],
                raises={"InterfaceError": [Clause(c_twice, "refused-only-when-a-placeholder-occurs-twice", props=["C02", "C09"])]}, expect=["return", "InterfaceError"], raises_only_props=["C02", "C10"])
        return {"contract": c, "callees": {"class:Range": m_range, "strmethod:replace": m_replace, "strmethod:count": m_count},
                "assumptions": ["A-STR: str.replace(a, b) with non-empty a is SMT-LIB str.replace_all(s, a, b); str.count(d) > 1 is the uninterpreted spec predicate occurs_more_than_once(format, d) (evaluated natively by the oracle over all rules of up to 3 pieces)", "the super().__init__ call is executed as real code with Range(length) abstracted (verified in contracts/ranges_init.py)"]}
    return ProofUnit("fields.DateTimeFieldFormat.__init__", "DateTimeFieldFormat.__init__: human readable layout -> strptime format (ordered replacement chain), has_time / has_date flags", ["C02", "C16", "C10"], make, DateTimeInitOracle)


def unit_decimal_init():
    def setup(ex, st):
        rule = fresh(STR, "rule")[0]; ae = fresh(BOOL, "allowed_empty")[0]; lt = fresh(STR, "length_text")[0]
        self = _field_init_env(ex, st, "DecimalFieldFormat", rule, ae)
        env = st.frames[-1].env; del env["length"]; env.update({"length_text": lt})
        df = env["data_format"]; ds = fresh(STR, "dsep")[0]; ts = fresh(STR, "tsep")[0]
        st.heap[df.oid].update({"_decimal_separator": ds, "_thousands_separator": ts})
        st.ghost.update({"rule": rule, "this": self, "lt": lt, "fmt": st.heap[df.oid]["_format"], "ds": ds, "ts": ts, "range_failed": False, "dr": None, "lr": None, "default_text": None})
    def m_range(ex, st, info, args, kw):
        if True:
            sb = st.copy(); sb.ghost["range_failed"] = True; yield from raise_new(ex, sb, "InterfaceError")
        r = Ref("Range"); st.heap[r.oid] = {"_items": None, "_description": args[0]}
        if args[0] is st.ghost["lt"]: st.ghost["lr"] = r
        yield st, r
    def m_drange(ex, st, info, args, kw):
        if True:
            sb = st.copy(); sb.ghost["range_failed"] = True; yield from raise_new(ex, sb, "InterfaceError")
        r = Ref("DecimalRange"); st.heap[r.oid] = {"_items": None, "_precision": fresh(INT, "precision")[0], "_scale": fresh(INT, "scale")[0]}
        if args[0] is st.ghost["rule"]: st.ghost["dr"] = r; st.ghost["default_text"] = args[1] if len(args) > 1 else kw.get("default")
        yield st, r
    def c_sep(ex, st):
        o = st.heap[st.ghost["this"].oid]
        return Sym(BOOL, z3.BoolVal(o.get("_decimal_separator", "<unset>") is None and o.get("_thousands_separator", "<unset>") is None and "decimal_separator" not in o and "thousands_separator" not in o))
    def c_ranges(ex, st):
        g = st.ghost; o = st.heap[g["this"].oid]; dr = g["dr"]
        if dr is None or o.get("valid_range") is not dr or o.get("_length") is not g["lr"] or g["lr"] is None: return Sym(BOOL, z3.BoolVal(False))
        from cutplace import ranges as _r
        if g["default_text"] != _r.DEFAULT_DECIMAL_RANGE_TEXT: return Sym(BOOL, z3.BoolVal(False))
        return Sym(BOOL, z3.And(lift(o["_precision"]).z == lift(st.heap[dr.oid]["_precision"]).z, lift(o["_scale"]).z == lift(st.heap[dr.oid]["_scale"]).z))
    def make(ctx):
        c = Contract("fields.DecimalFieldFormat.__init__", setup,
                returns=[Clause(c_sep, "no-separator-is-copied-into-the-field:-both-overrides-start-unset-so-that-the-data-format-decides-at-validation-time", props=["C02", "C11", "C16"]),
                         Clause(c_ranges, "valid-range-is-DecimalRange(rule,-default-range)-length-is-Range(length_text)-precision-and-scale-are-the-range's", props=["C02", "C03", "C19"]), _c_empty_value(None)],
                raises={"InterfaceError": [Clause("range_failed", "refused-only-for-a-broken-rule-or-length-text", props=["C02", "C09"])]},
                expect=["return", "InterfaceError"], raises_only_props=["C02", "C10"])
        return {"contract": c, "callees": {"class:Range": m_range, "class:DecimalRange": m_drange},
                "assumptions": ["Range(text) / DecimalRange(text, default) are used through their verified contracts (contracts/ranges_init.py, ranges_dinit.py)",
                                "DEFAULT_DECIMAL_RANGE_TEXT is the module constant of cutplace.ranges (read natively)"]}
    return ProofUnit("fields.DecimalFieldFormat.__init__", "DecimalFieldFormat.__init__: separators by data format, valid range from the rule (or the default decimal range), precision / scale", ["C02", "C16", "C19", "C10"], make, None)


def unit_decimal_separators():
    """the two separator properties of a Decimal field: the data format's current values for delimited and fixed data, '.' / none for the spreadsheet formats"""
    def mk(attr, spreadsheet):
        def setup(ex, st):
            df = Ref("DataFormat"); fmt = fresh(STR, "format")[0]; cur = fresh(STR, "current")[0]
            st.heap[df.oid] = {"_format": fmt, "_" + attr: cur}
            st.pc.append(z3.Or(fmt.z == "delimited", fmt.z == "fixed", fmt.z == "excel", fmt.z == "ods"))
            self = Ref("DecimalFieldFormat"); st.heap[self.oid] = {"_data_format": df, "_decimal_separator": None, "_thousands_separator": None}
            st.frames[-1].env.update({"self": self}); st.ghost.update({"fmt": fmt, "cur": cur})
        def c(ex, st):
            flat = z3.Or(G(st, "fmt") == "delimited", G(st, "fmt") == "fixed")
            return Sym(BOOL, lift(st.ghost["__result__"]).z == z3.If(flat, G(st, "cur"), z3.StringVal(spreadsheet)))
        return Contract("fields.DecimalFieldFormat." + attr, setup,
                        returns=[Clause(c, "the-%s-is-the-data-format's-current-one-for-delimited-and-fixed-data-and-%r-for-spreadsheet-formats" % (attr.replace("_", "-"), spreadsheet), props=["C02", "C11", "C16"])],
                        expect=["return"], n_loops=0, modifies=[])
    def make(ctx):
        return [{"contract": mk("decimal_separator", "."), "label": "decimal separator", "assumptions": ["no explicit override set on the field (the constructor leaves both unset: fields.DecimalFieldFormat.__init__)"]},
                {"contract": mk("thousands_separator", ""), "label": "thousands separator"}]
    return ProofUnit("fields.DecimalFieldFormat.separators", "Decimal separators are read from the data format at validation time (so that property rows after the field rows count)", ["C02", "C11", "C16"], make, None)


def unit_text_init():
    def setup(ex, st):
        rule = fresh(STR, "rule")[0]; ae = fresh(BOOL, "allowed_empty")[0]
        self = _field_init_env(ex, st, "TextFieldFormat", rule, ae)
        env = st.frames[-1].env
        st.ghost.update({"this": self, "rule": rule, "ae": ae, "length_text": env["length"], "fname": env["field_name"], "df": env["data_format"], "range_failed": False, "lr": None})
    def m_range(ex, st, info, args, kw):
        sb = st.copy(); sb.ghost["range_failed"] = True; yield from raise_new(ex, sb, "InterfaceError")
        r = Ref("Range"); st.heap[r.oid] = {"_items": None}
        if args[0] is st.ghost["length_text"] and len(args) == 1 and not kw: st.ghost["lr"] = r
        yield st, r
    def c_bound(ex, st):
        g = st.ghost; o = st.heap[g["this"].oid]
        ok = (o.get("_field_name") is g["fname"] and o.get("_is_allowed_to_be_empty") is g["ae"] and g["lr"] is not None and o.get("_length") is g["lr"] and o.get("_rule") is g["rule"]
              and o.get("_data_format") is g["df"] and o.get("_empty_value", 0) == "" and o.get("_example", 0) is None)
        return Sym(BOOL, z3.BoolVal(bool(ok)))
    def make(ctx):
        c = Contract("fields.TextFieldFormat.__init__", setup,
                returns=[Clause(c_bound, "name-empty-mark-rule-and-data-format-are-stored-as-given-the-length-is-Range(length-text)-an-empty-text-cell-yields-''", props=["C03", "C02", "C09"])],
                raises={"InterfaceError": [Clause("range_failed", "refused-only-for-a-broken-length-text", props=["C09"])]},
                expect=["return", "InterfaceError"], raises_only_props=["C03", "C10"])
        return {"contract": c, "callees": {"class:Range": m_range}, "assumptions": ["Range(text) is used through its verified contract (contracts/ranges_init.py)"]}
    return ProofUnit("fields.TextFieldFormat.__init__", "TextFieldFormat.__init__ with AbstractFieldFormat.__init__ inlined: attributes bound as given, length = Range(length text)", ["C03", "C02", "C09", "C10"], make, None)
