"""Sidecar contracts for cutplace/errors.py: Location.__copy__, Location.__str__, CutplaceError.__init__ (C04, C06, C05)."""
import z3
from .common import *
from vf.unit import ProofUnit
from vf.model import *


def loc_obj(st):
    loc = Ref("Location")
    st.heap[loc.oid] = {"file_path": fresh(STR, "file_path")[0], "_line": fresh(INT, "line")[0], "_column": fresh(INT, "column")[0], "_cell": fresh(INT, "cell")[0], "_sheet": fresh(INT, "sheet")[0],
                        "_has_column": fresh(BOOL, "has_column")[0], "_has_cell": fresh(BOOL, "has_cell")[0], "_has_sheet": fresh(BOOL, "has_sheet")[0]}
    st.pc.append(z3.Length(lift(st.heap[loc.oid]["file_path"]).z) > 0)
    return loc


def unit_location_copy_and_str():
    def make(ctx):
        out = []
        def setup_copy(ex, st):
            loc = loc_obj(st); st.frames[-1].env["self"] = loc; st.ghost["loc"] = loc
        def is_clone(ex, st):
            r = st.ghost["__result__"]; loc = st.ghost["loc"]
            if not isinstance(r, Ref) or r == loc or r.cls != "Location": return Sym(BOOL, z3.BoolVal(False))
            a, b = st.heap[loc.oid], st.heap[r.oid]
            if set(a) != set(b): return Sym(BOOL, z3.BoolVal(False))
            return Sym(BOOL, z3.And(*[lift(a[k]).z == lift(b[k]).z for k in a]))
        out.append({"contract": Contract("errors.Location.__copy__", setup_copy, returns=[Clause(is_clone, "a-new-Location-object-with-every-field-equal", props=["C04", "C05", "C06"])], raises={}, expect=["return"], n_loops=0, modifies=[]),
                    "label": "__copy__"})
        def setup_str(ex, st):
            loc = loc_obj(st); o = st.heap[loc.oid]; o["_has_cell"] = True; o["_has_sheet"] = False; o["_has_column"] = False
            st.pc.extend([lift(o["_line"]).z >= 0, lift(o["_cell"]).z >= 0])
            st.frames[-1].env["self"] = loc; st.ghost["loc"] = loc
        def text(ex, st):
            o = st.heap[st.ghost["loc"].oid]; r = lift(st.ghost["__result__"]).z
            base = ex.absfun_s("path_basename", [z3.StringSort()], z3.StringSort())(lift(o["file_path"]).z)
            return Sym(BOOL, r == z3.Concat(base, z3.StringVal(" (R"), z3.IntToStr(lift(o["_line"]).z + 1), z3.StringVal("C"), z3.IntToStr(lift(o["_cell"]).z + 1), z3.StringVal(")")))
        out.append({"contract": Contract("errors.Location.__str__", setup_str, returns=[Clause(text, "a-tabular-location-reads-<input>-(R<row>C<column>)-both-1-based", props=["C04"])], raises={}, expect=["return"], n_loops=0, modifies=[]),
                    "label": "__str__ (tabular data)"})
        return out
    return ProofUnit("errors.Location", "Location.__copy__ is a field-wise clone; __str__ names the input and the 1-based row and column", ["C04", "C05", "C06"], make, None)
