"""Sidecar contracts for cutplace/validio.py: BaseValidator.validate_row / close, Reader.rows, Writer (C04, C05, C06, C07, C08, C14, C20)."""
import io, itertools, z3
from .common import *
from vf import findings
from vf.unit import ProofUnit, NativeUnit, Oracle, sweep
from vf.model import *

FIELD = Abs("Field"); CHECK = Abs("Check"); CELL = Abs("Cell"); ROW = Abs("Row")
SeqRow = SeqList(ROW)


# =====================================================================================================================
# BaseValidator.validate_row  against abstract field formats and checks (ghost protocol automaton: fields_done, checks_done)
# =====================================================================================================================
def field_validated(ex, st, recv, args, kw):
    """abstract AbstractFieldFormat.validated: protocol monitor + uninterpreted verdict"""
    v = args[0]
    fidx = ex.absfun_s("field_index_of", [sort_of(FIELD)], z3.IntSort())(recv.z)
    g = st.ghost
    ex.obligations.append(Obligation("protocol/validated-called-in-column-order-before-any-check", st.pc, z3.And(lift(g["fields_done"]).z == fidx, lift(g["checks_done"]).z == 0), "protocol", props=["C04", "C20"]))
    ex.obligations.append(Obligation("protocol/validated-receives-the-cell-of-its-column", st.pc, lift(v).z == g["rowv"].at(fidx), "protocol", props=["C04", "C20"]))
    g["fields_done"] = Sym(INT, fidx + 1)
    acc = ex.absfun_s("accepts", [sort_of(FIELD), sort_of(CELL)], z3.BoolSort())(recv.z, v.z)
    for s2, b in ex.fork(st, Sym(BOOL, acc)):
        if b: yield s2, fresh(Abs("Native"), "native")[0]
        else: yield from raise_new(ex, s2, "FieldValueError")


def check_row(ex, st, recv, args, kw):
    cidx = ex.absfun_s("check_index_of", [sort_of(CHECK)], z3.IntSort())(recv.z)
    g = st.ghost
    n = lift(st.ghost["n_fields"]).z
    ex.obligations.append(Obligation("protocol/check_row-only-after-all-fields-in-declaration-order", st.pc, z3.And(lift(g["fields_done"]).z == n, lift(g["checks_done"]).z == cidx), "protocol", props=["C04", "C05", "C20"]))
    loc = args[1]
    ex.obligations.append(Obligation("protocol/check_row-gets-the-validator-location", st.pc, z3.BoolVal(isinstance(loc, Ref) and loc == g["loc"]), "protocol", props=["C04", "C05", "C20"]))
    g["checks_done"] = Sym(INT, cidx + 1)
    ok = ex.absfun_s("check_ok", [sort_of(CHECK), z3.IntSort()], z3.BoolSort())(recv.z, lift(g["row_id"]).z)
    for s2, b in ex.fork(st, Sym(BOOL, ok)):
        if b: yield s2, None
        else:
            m = fresh(STR, "msg")[0]; s2.pc.append(z3.Length(m.z) > 0)
            s3 = s2.copy()
            yield from raise_new(ex, s2, "CheckError", [m, loc])
            yield from raise_new(ex, s3, "CheckError", [m])           # a plug-in check that does not say where (as the example in the documentation): the validator has to


def setup_validate_row(ex, st):
    n = fresh(INT, "n")[0]; m = fresh(INT, "m")[0]
    fields, c1 = fresh(UFList(FIELD), "fields"); names, c2 = fresh(UFList(STR), "names"); checks, c3 = fresh(UFList(STR), "check_names")
    row, c4 = fresh(UFList(CELL), "row")
    st.pc.extend(c1 + c2 + c3 + c4)
    st.pc.extend([fields.length == n.z, names.length == n.z, n.z >= 1, checks.length == m.z])
    fio = ex.absfun_s("field_index_of", [sort_of(FIELD)], z3.IntSort()); i = z3.Int("i")
    st.pc.append(z3.ForAll([i], z3.Implies(z3.And(i >= 0, i < n.z), fio(fields.at(i)) == i)))
    check_of = z3.Function("check_of", z3.StringSort(), sort_of(CHECK)); cio = ex.absfun_s("check_index_of", [sort_of(CHECK)], z3.IntSort())
    st.pc.append(z3.ForAll([i], z3.Implies(z3.And(i >= 0, i < m.z), cio(check_of(checks.at(i))) == i)))
    loc = Ref("Location"); line = fresh(INT, "line")[0]; cell0 = fresh(INT, "cell0")[0]
    st.pc.extend([line.z >= 0, cell0.z >= 0])
    st.heap[loc.oid] = {"file_path": "<io>", "_line": line, "_column": 0, "_cell": cell0, "_sheet": 0, "_has_column": False, "_has_cell": True, "_has_sheet": False}
    cid = Ref("Cid"); st.heap[cid.oid] = {"_field_formats": fields, "_field_names": names, "_check_names": checks, "_check_name_to_check_map": UFMap(STR, CHECK, check_of)}
    started = fresh(BOOL, "run_started")[0]
    self = Ref("Reader"); st.heap[self.oid] = {"_cid": cid, "_expected_item_count": n, "_location": loc, "_is_closed": False, "_has_reset_checks": started}
    env = st.frames[-1].env; env["self"] = self; env["row"] = row
    st.ghost.update({"fields_done": 0, "checks_done": 0, "n_fields": n, "row_id": fresh(INT, "row_id")[0], "run_started": started, "reset_calls": 0, "this": self})
    st.ghost["loc"] = loc; st.ghost["line0"] = line; st.ghost["fields"] = fields; st.ghost["rowv"] = row; st.ghost["n"] = n; st.ghost["m"] = m
    st.ghost["checksv"] = checks; st.ghost["check_of"] = check_of


def sf_accepts(ex, st, j):   # spec function: row[j] is a str and field j accepts it
    f = st.ghost["fields"].at(lift(j).z); c = st.ghost["rowv"].at(lift(j).z)
    return Sym(BOOL, z3.And(ex.absfun("is_str", CELL, BOOL)(c), ex.absfun_s("accepts", [sort_of(FIELD), sort_of(CELL)], z3.BoolSort())(f, c)))
def sf_check_ok(ex, st, j):
    c = st.ghost["check_of"](st.ghost["checksv"].at(lift(j).z))
    return Sym(BOOL, ex.absfun_s("check_ok", [sort_of(CHECK), z3.IntSort()], z3.BoolSort())(c, lift(st.ghost["row_id"]).z))
def sf_field_name(ex, st, j):
    return Sym(STR, ex.absfun_s("field_name", [sort_of(FIELD)], z3.StringSort())(st.ghost["fields"].at(lift(j).z)))
def absattr_field_name(ex, st, recv): return Sym(STR, ex.absfun_s("field_name", [sort_of(FIELD)], z3.StringSort())(recv.z))
def sf_startswith(ex, st, a, b): return Sym(BOOL, z3.PrefixOf(lift(b).z, lift(a).z))
def sf_repr_of(ex, st, a):
    from pyvc.symexec import repr_str
    return Sym(STR, repr_str(lift(a).z))


ALL_OK = "len(row) == n and forall(j, 0 <= j and j < n, accepts(j)) and forall(j, 0 <= j and j < m, check_ok(j))"


def validate_row_contract():
    return Contract("validio.BaseValidator.validate_row", setup_validate_row,
        requires=[],
        returns=[Clause(ALL_OK, "accepted-only-if-count-cells-and-checks-pass", props=["C04", "C05", "C20"]),
                 Clause("fields_done == n and checks_done == m", "every-field-and-check-consulted-once", props=["C04", "C20"]),
                 Clause("loc._line == line0", "row-number-untouched", props=["C04"]),
                 Clause(lambda ex, st: Sym(BOOL, z3.And(z3.If(G(st, "run_started"), z3.IntVal(0), z3.IntVal(1)) == st.ghost["reset_calls"], z3.BoolVal(st.heap[st.ghost["this"].oid]["_has_reset_checks"] is True) if not isinstance(st.heap[st.ghost["this"].oid]["_has_reset_checks"], Sym) else st.heap[st.ghost["this"].oid]["_has_reset_checks"].z)),
                        "the-first-row-of-a-run-that-feeds-its-rows-itself-resets-the-checks-once-a-run-under-way-does-not;-afterwards-the-run-counts-as-begun", props=["C08", "C05", "C20"])],
        raises={"DataError": [
            Clause(lambda ex, st: Sym(BOOL, z3.If(G(st, "run_started"), z3.IntVal(0), z3.IntVal(1)) == st.ghost["reset_calls"]), "also-a-rejected-first-row-has-reset-the-checks-once", props=["C08", "C05", "C20"]),
            Clause("not (%s)" % ALL_OK, "rejected-only-if-something-fails", props=["C04", "C05", "C20"]),
            Clause("exc._location is not None and exc._location is not loc and exc._location._line == line0 and exc._location._has_cell", "error-carries-its-own-copy-of-the-location-at-this-row", props=["C04", "C06"]),
            Clause("implies(len(row) == n and exists(j, 0 <= j and j < n, not accepts(j)), "
                   "   0 <= exc._location._cell and exc._location._cell < n and not accepts(exc._location._cell) and forall(j, 0 <= j and j < exc._location._cell, accepts(j)) "
                   "   and fields_done <= exc._location._cell + 1 and checks_done == 0 and startswith(exc._message, 'cannot accept field ' + repr_of(field_name(exc._location._cell))))",
                   "field-error-names-first-offending-column-and-field", props=["C04", "C20"]),
            Clause("implies(len(row) == n and forall(j, 0 <= j and j < n, accepts(j)), exc._location._cell == 0 and fields_done == n and checks_done >= 1 and not check_ok(checks_done - 1) and forall(j, 0 <= j and j < checks_done - 1, check_ok(j)))",
                   "check-error-only-after-all-fields-first-failing-check-stops", props=["C04", "C05", "C20"]),
            Clause("implies(len(row) != n, fields_done == 0 and checks_done == 0 and exc._location._cell == 0)", "count-mismatch-consults-nothing-and-is-located-at-the-first-column-(not-where-an-earlier-row-happened-to-fail)", props=["C04", "C20"]),
        ]},
        loops={
            0: LoopSpec(invariants=["fields_done == _i0", "checks_done == 0", "forall(j, 0 <= j and j < _i0, accepts(j))", "loc._line == line0", "len(row) == n"],
                        havoc={"loc._cell": INT, "field_index": INT, "field_value": CELL, "field_to_validate": FIELD}, ghost_havoc={"fields_done": INT, "checks_done": INT}),
            1: LoopSpec(invariants=["fields_done == n", "checks_done == _i1", "forall(j, 0 <= j and j < _i1, check_ok(j))", "loc._line == line0", "loc._cell == 0", "forall(j, 0 <= j and j < n, accepts(j))", "len(row) == n"],
                        havoc={"check_name": STR}, ghost_havoc={"fields_done": INT, "checks_done": INT}),
        }, expect=["return", "DataError"], n_loops=2)


def m_reset_checks(ex, st, recv, args, kw):
    """contract of BaseValidator._reset_checks (verified: validio.BaseValidator._reset_checks): every check reset once, the run marked as begun"""
    ex.obligations.append(Obligation("protocol/the-checks-are-reset-before-anything-is-asked-of-a-field-or-check", st.pc, z3.And(G(st, "fields_done") == 0, G(st, "checks_done") == 0), "protocol", props=["C08", "C20", "C05"]))
    st.ghost["reset_calls"] = st.ghost["reset_calls"] + 1; st.heap[recv.oid]["_has_reset_checks"] = True
    yield st, None


def validate_row_callees():
    return {"ref:Reader._reset_checks": m_reset_checks, "abs:Field.validated": AbsContract(field_validated), "abs:Check.check_row": AbsContract(check_row), "absattr:Field.field_name": absattr_field_name}


VR_SPECF = {"accepts": sf_accepts, "check_ok": sf_check_ok, "field_name": sf_field_name, "startswith": sf_startswith, "repr_of": sf_repr_of}


# ---- native side: recording stub plug-ins driven through the real validate_row
class _StubField:
    def __init__(self, name, accept_set, log): self.field_name = name; self.accept = accept_set; self.log = log
    def validated(self, value):
        from cutplace import errors
        self.log.append(("validated", self.field_name, value))
        if value not in self.accept: raise errors.FieldValueError("bad value")
        return value

class _StubCheck:
    def __init__(self, name, veto_rows, log, fail_at_end=False): self.name = name; self.veto = veto_rows; self.log = log; self.fail_at_end = fail_at_end; self.seen = 0
    def reset(self): self.log.append(("reset", self.name)); self.seen = 0
    def check_row(self, field_map, location):
        from cutplace import errors
        self.log.append(("check_row", self.name, tuple(field_map.values()), location.line)); self.seen += 1
        if tuple(field_map.values()) in self.veto:
            # every other veto comes without a location, as the check_row() example in the documentation raises it: the validator has to say where
            self.vetoes = getattr(self, "vetoes", 0) + 1
            raise errors.CheckError("veto", location) if (len(field_map) % 2) else errors.CheckError("veto")
    def check_at_end(self, location):
        from cutplace import errors
        self.log.append(("check_at_end", self.name))
        if self.fail_at_end: raise errors.CheckError("end", location)
    def cleanup(self): self.log.append(("cleanup", self.name))

class _StubFormat:
    def __init__(self, header=0): self.header = header; self.is_valid = True; self.format = "delimited"

class _StubCid:
    def __init__(self, fields, checks, header=0):
        self.field_formats = fields; self.field_names = [f.field_name for f in fields]
        self.check_names = [c.name for c in checks]; self.check_map = {c.name: c for c in checks}
        self.data_format = _StubFormat(header)
        self._data_format = self.data_format


def native_validate_row(fields_accept, checks_veto, row, line=3, run_started=True):
    """run the real BaseValidator.validate_row with recording stubs; returns (outcome, log, location)"""
    from cutplace import validio, errors
    log = []
    fields = [_StubField("f%d" % i, acc, log) for i, acc in enumerate(fields_accept)]
    checks = [_StubCheck("c%d" % i, veto, log) for i, veto in enumerate(checks_veto)]
    v = validio.BaseValidator(_StubCid(fields, checks))
    v._location = errors.Location("<io>", has_cell=True)
    v._location.set_cell(2)                    # where an earlier row happened to be rejected: must not show in this row's location
    v._has_reset_checks = run_started          # inside a run (rows() / Writer have reset the checks) - or the first row of a run that feeds its rows itself
    for _ in range(line): v._location.advance_line()
    try:
        v.validate_row(row); out = ("return", None)
    except errors.DataError as e:
        out = ("DataError", e)
    except Exception as e:
        out = (type(e).__name__, e)
    return out, log, v._location


class ValidateRowOracle(Oracle):
    quick_cases = 2000
    bound = "1-3 stub fields x 0-2 stub checks x rows of 0-4 cells over {'a','b',7}"
    def cases(self, ctx):
        cells = ["a", "b", 7]
        for nf in (1, 2, 3):
            for nc in (0, 1, 2):
                for rl in range(0, 5):
                    for row in itertools.product(cells, repeat=rl):
                        yield (nf, nc, list(row))
                        if rl <= 2: yield (nf, nc, list(row), "first row of a run")
    def check(self, case):
        nf, nc, row = case[:3]; first = len(case) > 3
        accept = [{"a"} for _ in range(nf)]
        veto = [{tuple(["a"] * nf)} if i == 1 else set() for i in range(nc)]
        (kind, e), log, loc = native_validate_row(accept, veto, row, run_started=not first)
        if first:       # a run that feeds its rows itself: every check is reset once, before anything else is asked
            resets = [("reset", "c%d" % i) for i in range(nc)]
            if log[:nc] != resets or any(x[0] == "reset" for x in log[nc:]): return {"expected": "every check reset once, first: %r" % resets, "observed": "calls %r" % (log,)}
            log = log[nc:]
        # expected, from the statement
        if len(row) != nf: exp = ("DataError", 0, None, [])
        else:
            bad = next((j for j, c in enumerate(row) if not (isinstance(c, str) and c in accept[j])), None)
            if bad is not None:
                exp = ("DataError", bad, "f%d" % bad, [("validated", "f%d" % j, row[j]) for j in range(bad + 1) if isinstance(row[j], str)])
            else:
                calls = [("validated", "f%d" % j, row[j]) for j in range(nf)]
                vet = next((i for i in range(nc) if tuple(row) in veto[i]), None)
                for i in range(nc if vet is None else vet + 1): calls.append(("check_row", "c%d" % i, tuple(row), 3))
                exp = ("return", None, None, calls) if vet is None else ("DataError", 0, None, calls)
        if kind != exp[0]: return {"expected": exp[0], "observed": "%s %s" % (kind, e)}
        if log != exp[3]: return {"expected": "calls %r" % (exp[3],), "observed": "calls %r" % (log,)}
        if kind == "DataError":
            if e.location is None or e.location.line != 3 or e.location.cell != exp[1]:
                return {"expected": "error at row 4, cell %d" % exp[1], "observed": str(e.location)}
            if exp[2] is not None and not e.message.startswith("cannot accept field %r" % exp[2]):
                return {"expected": "message names field %s" % exp[2], "observed": e.message}
            if e.location is loc: return {"expected": "error owns a copy of the location", "observed": "shares the validator's location object"}
        return None
    def describe(self, case):
        return {"stub_fields": case[0], "stub_checks": case[1], "row": case[2], "first_row_of_a_run_that_feeds_its_rows_itself": len(case) > 3, "call": "BaseValidator.validate_row(row) with recording stub field formats (accept only 'a') and checks (check 1 vetoes all-'a' rows)"}


def unit_validate_row():
    def make(ctx):
        return {"contract": validate_row_contract(), "callees": validate_row_callees(), "spec_functions": VR_SPECF,
                "assumptions": ["field formats and checks are abstract plug-ins: validated()/check_row() are uninterpreted verdict functions that raise only FieldValueError / CheckError (their own contracts: C02/C03/C05)",
                                "exceptions are built by the real CutplaceError.__init__ / prepend_message (executed, not assumed); copy.copy(location) is a field-wise clone (obligation on Location.__copy__)"]}
    return ProofUnit("validio.BaseValidator.validate_row", "validate_row: verdict iff count, cells and checks pass; culprit column and field; call protocol",
                     ["C04", "C05", "C06", "C20"], make, ValidateRowOracle())


# =====================================================================================================================
# Reader.rows : header / limit window, three error modes, counters, reset protocol (C04 C06 C07 C08 C20)
# =====================================================================================================================
ok = z3.Function("ok", z3.IntSort(), z3.BoolSort())                 # verdict of validate_row for raw row k (1-based)
outc = z3.Function("outc", z3.IntSort(), sort_of(SeqRow)); cacc = z3.Function("cnt_acc", z3.IntSort(), z3.IntSort()); crej = z3.Function("cnt_rej", z3.IntSort(), z3.IntSort())


def r_val(st, k):   # raw row k (1-based, header rows counted) is inside the validation window
    return z3.And(k > G(st, "header"), z3.Or(G(st, "until_none"), k <= G(st, "until")))
def r_acc(st, k): return z3.And(k > G(st, "header"), z3.Or(z3.Not(r_val(st, k)), ok(k)))
def r_rejd(st, k): return z3.And(r_val(st, k), z3.Not(ok(k)))


def rows_unfold_at(ex, st):
    """ground unfolding of the recursive spec functions outc / cnt_acc / cnt_rej at the loop index"""
    env = st.frames[-1].env
    out = []
    for kz in {lift(env.get("_i1", 0)).z, lift(env.get("_i1", 0)).z - 1}:
        rows = st.ghost["raw"]
        out += [z3.Implies(kz >= 0, outc(kz + 1) == z3.If(r_acc(st, kz + 1), z3.Concat(outc(kz), z3.Unit(rows.at(kz))), outc(kz))),
                z3.Implies(kz >= 0, cacc(kz + 1) == cacc(kz) + z3.If(r_acc(st, kz + 1), 1, 0)),
                z3.Implies(kz >= 0, crej(kz + 1) == crej(kz) + z3.If(r_rejd(st, kz + 1), 1, 0))]
    out += [outc(0) == z3.Empty(sort_of(SeqRow)), cacc(0) == 0, crej(0) == 0]
    return out


def m_raw_rows(ex, st, fn, args, kw):
    """contract of the four readers (C06 clause `a malformed container stops reading with a data-format error`): a finite sequence of rows,
    possibly cut short by a DataFormatError raised by the reader instead of delivering row number fail_at + 1"""
    def raise_fault(ex_, s):
        m = fresh(STR, "msg")[0]; s.pc.append(z3.Length(m.z) > 0)
        floc = Ref("Location"); s.heap[floc.oid] = {"file_path": "<io>", "_line": fresh(INT, "fline")[0], "_column": 0, "_cell": 0, "_sheet": 0, "_has_column": False, "_has_cell": False, "_has_sheet": False}
        for s2, e in raise_new(ex_, s, "DataFormatError", [m, floc]):
            s2.ghost["fault"] = True; s2.ghost["fault_exc"] = e.exc; yield s2, e
    yield st, FallibleIter(st.ghost["raw"], st.ghost["fail_at"], raise_fault)


def m_validate_row(ex, st, fn, args, kw):
    env = st.frames[-1].env; k = lift(env["_i1"]).z + 1      # the number of the current raw row: iterations of the loop over _raw_rows() so far, plus one (not whatever the code calls its counter)
    ex.obligations.append(Obligation("protocol/validate_row-only-inside-header-limit-window-each-row-once-in-order", st.pc, z3.And(r_val(st, k), G(st, "last_validated") < k), "protocol", props=["C07", "C20", "C04"]))
    ex.obligations.append(Obligation("protocol/validate_row-receives-the-current-raw-row", st.pc, lift(args[0]).z == st.ghost["raw"].at(k - 1), "protocol", props=["C04", "C06", "C07"]))
    st.ghost["last_validated"] = Sym(INT, k)
    ex.obligations.append(Obligation("location/line-is-row-number-minus-1-at-validation", st.pc, lift(st.heap[st.ghost["loc"].oid]["_line"]).z == k - 1, "post", props=["C04", "C05"]))
    ex.obligations.append(Obligation("protocol/all-checks-reset-before-first-validated-row", st.pc, G(st, "resets_done") == G(st, "m"), "protocol", props=["C08", "C20", "C05"]))
    ex.obligations.append(Obligation("protocol/the-run-is-marked-as-begun-before-the-first-validated-row", st.pc, lift(st.heap[st.ghost["this"].oid]["_has_reset_checks"]).z, "protocol", props=["C08", "C20", "C05"]))
    for s2, b in ex.fork(st, Sym(BOOL, ok(k))):
        if b: yield s2, None
        else:
            msg = fresh(STR, "msg")[0]; s2.pc.append(z3.Length(msg.z) > 0)
            for s3, e in raise_new(ex, s2, "DataError", [msg, s2.ghost["loc"]]):
                s3.ghost["last_error"] = e.exc; yield s3, e


def m_reset(ex, st, recv, args, kw):
    cio = ex.absfun_s("check_index_of", [sort_of(CHECK)], z3.IntSort())(recv.z)
    ex.obligations.append(Obligation("protocol/reset-each-check-once-in-order", st.pc, G(st, "resets_done") == cio, "protocol", props=["C08", "C20"]))
    st.ghost["resets_done"] = Sym(INT, cio + 1); yield st, None


def setup_rows(ex, st):
    raw, c = fresh(UFList(ROW), "raw"); st.pc.extend(c)
    header = fresh(INT, "header")[0]; until = fresh(INT, "until")[0]; until_none = fresh(BOOL, "until_none")[0]; m = fresh(INT, "m")[0]
    st.pc.extend([header.z >= 0, until.z >= 0, m.z >= 0])
    checks, c2 = fresh(UFList(CHECK), "checks"); st.pc.extend(c2); st.pc.append(checks.length == m.z)
    i = z3.Int("i"); cio = ex.absfun_s("check_index_of", [sort_of(CHECK)], z3.IntSort())
    st.pc.append(z3.ForAll([i], z3.Implies(z3.And(i >= 0, i < m.z), cio(checks.at(i)) == i)))
    loc = Ref("Location"); st.heap[loc.oid] = {"file_path": "<io>", "_line": 0, "_column": 0, "_cell": 0, "_sheet": 0, "_has_column": False, "_has_cell": True, "_has_sheet": False}
    df = Ref("DataFormat"); st.heap[df.oid] = {"_header": header}
    cid = Ref("Cid"); st.heap[cid.oid] = {"_data_format": df, "_check_name_to_check_map": UFMap(STR, CHECK, None, values=checks)}
    mode = fresh(STR, "mode")[0]
    st.pc.append(z3.Or(mode.z == "raise", mode.z == "yield", mode.z == "continue"))
    vu, _ = fresh(Opt(INT), "validate_until"); so = sort_of(Opt(INT))
    st.pc.append(until_none.z == so.is_none(vu.z)); st.pc.append(z3.Implies(z3.Not(until_none.z), so.val(vu.z) == until.z))
    # pre-state of the counters and of the checks is arbitrary: whatever an earlier run (finished, failed, abandoned) left behind
    self = Ref("Reader"); st.heap[self.oid] = {"_cid": cid, "_location": loc, "_on_error": mode, "_validate_until": vu, "accepted_rows_count": fresh(Opt(INT), "acc0")[0],
                                              "rejected_rows_count": fresh(Opt(INT), "rej0")[0], "_is_closed": False, "_has_reset_checks": fresh(BOOL, "begun0")[0]}
    st.frames[-1].env["self"] = self
    st.ghost.update({"raw": raw, "header": header, "until": until, "until_none": until_none, "m": m, "loc": loc, "resets_done": 0, "last_validated": 0,
                     "out_rows": Sym(SeqRow, z3.Empty(sort_of(SeqRow))), "n_err": 0, "mode": mode, "this": self, "fault": False, "fault_exc": None, "fail_at": fresh(INT, "fail_at")[0]})
    def hook(s, v):
        if isinstance(v, Sym): s.ghost["out_rows"] = Sym(SeqRow, z3.Concat(lift(s.ghost["out_rows"]).z, z3.Unit(v.z)))
        else:
            s.ghost["n_err"] = Sym(INT, lift(s.ghost["n_err"]).z + 1)
            ex.obligations.append(Obligation("yield-mode/yielded-error-is-the-error-validate_row-just-raised", s.pc, z3.BoolVal(v == s.ghost.get("last_error")), "post", props=["C06"]))
    ex.yield_hook = hook
    # F-14: the flag Reader.close relies on is raised only once every check has been reset
    def before_flag(ex_, s):
        ex_.obligations.append(Obligation("protocol/the-reader-marks-its-checks-as-reset-only-after-resetting-every-one-of-them", s.pc, G(s, "resets_done") == G(s, "m"), "protocol", props=["C08", "C05", "C20"]))
    ex.stmt_hooks_before["self._has_reset_checks = True"] = before_flag
    # rows() may as well leave both, the resetting and the flag, to _reset_checks() (model below, from that method's own verified contract);
    # that the flag is raised at all is a clause of its own (at the first validated row and at the end)
    ex.hooks_optional = set(getattr(ex, "hooks_optional", ())) | {"self._has_reset_checks = True"}


def sf_outc(ex, st, k): return Sym(SeqRow, outc(lift(k).z))
def sf_cacc(ex, st, k): return Sym(INT, cacc(lift(k).z))
def sf_crej(ex, st, k): return Sym(INT, crej(lift(k).z))
def sf_max0(ex, st, a): z = lift(a).z; return Sym(INT, z3.If(z > 0, z, 0))
def sf_norej(ex, st, k):
    j = z3.Int("j!nr"); return Sym(BOOL, z3.ForAll([j], z3.Implies(z3.And(j >= 1, j <= lift(k).z), z3.Not(r_rejd(st, j)))))
def sf_rejd(ex, st, k): return Sym(BOOL, r_rejd(st, lift(k).z))

ROWS_SPECF = {"outc": sf_outc, "cnt_acc": sf_cacc, "cnt_rej": sf_crej, "max0": sf_max0, "norej": sf_norej, "rejd": sf_rejd}
N = "len(raw)"


def rows_contract():
    return Contract("validio.Reader.rows", setup_rows,
        returns=[  # generator exhausted
            Clause("out_rows == outc(%s)" % N, "yielded-rows-are-exactly-the-spec-sequence", props=["C04", "C06", "C07", "C18"]),
            Clause("this.accepted_rows_count == cnt_acc(%s)" % N, "accepted-counter", props=["C06"]),
            Clause("implies(mode != 'raise', this.rejected_rows_count == cnt_rej(%s) and this.accepted_rows_count + this.rejected_rows_count == max0(%s - header))" % (N, N), "counters-add-up-to-data-rows", props=["C06"]),
            Clause("implies(mode == 'raise', norej(%s))" % N, "raise-mode-exhausts-only-without-rejection", props=["C06", "C18"]),
            Clause("implies(mode == 'yield', n_err == cnt_rej(%s))" % N, "yield-mode-one-error-per-rejected-row", props=["C06"]),
            Clause("implies(mode != 'yield', n_err == 0)", "no-error-objects-outside-yield-mode", props=["C06"]),
            Clause("loc._line == %s" % N, "location-advanced-once-per-raw-row", props=["C04", "C05"]),
            Clause("resets_done == m", "every-check-reset-exactly-once", props=["C08", "C20"]),
            Clause("this._has_reset_checks", "the-run-is-marked-as-begun", props=["C08", "C20", "C05"])],
        raises={"DataError": [Clause("fault or mode == 'raise'", "a-row-rejection-propagates-only-in-raise-mode", props=["C06", "C18"]),
                              Clause("implies(not fault, 0 <= _i1 and _i1 < len(raw) and rejd(_i1 + 1) and norej(_i1))", "raised-at-the-first-rejected-row", props=["C06", "C07", "C18"]),
                              Clause("out_rows == outc(_i1)", "rows-before-the-stop-were-yielded", props=["C06"]),
                              Clause("implies(not fault, exc._location._line == _i1)", "error-located-at-the-rejected-row", props=["C04", "C06", "C05"]),
                              Clause("implies(fault, exc is fault_exc and _i1 == fail_at)", "a-container-fault-propagates-unchanged-in-every-mode-at-the-row-where-it-happened", props=["C06", "C18"])]},
        loops={
            0: LoopSpec(invariants=["resets_done == _i0"], havoc={"check": CHECK}, ghost_havoc={"resets_done": INT}, match="self.cid.check_map.values()"),
            1: LoopSpec(match="enumerate(self._raw_rows(), 1)", invariants=["loc._line == _i1", "out_rows == outc(_i1)", "this.accepted_rows_count == cnt_acc(_i1)",
                                    "implies(mode != 'raise', this.rejected_rows_count == cnt_rej(_i1) and this.accepted_rows_count + this.rejected_rows_count == max0(_i1 - header))",
                                    "implies(mode == 'raise', norej(_i1) and this.rejected_rows_count == 0)", "implies(mode == 'yield', n_err == cnt_rej(_i1))", "implies(mode != 'yield', n_err == 0)",
                                    "last_validated <= _i1", "resets_done == m"],
                        havoc={"loc._line": INT, "loc._cell": INT, "loc._column": INT, "this.accepted_rows_count": INT, "this.rejected_rows_count": INT,
                               "row_count": INT, "row": ROW, "is_after_header_row": BOOL, "is_before_validate_until": BOOL, "error": Obj("DataError")},
                        ghost_havoc={"out_rows": SeqRow, "n_err": INT, "last_validated": INT}, unfolds=[rows_unfold_at]),
        }, expect=["return", "DataError"], n_loops=2)


def m_reset_checks_in_rows(ex, st, recv, args, kw):
    """contract of BaseValidator._reset_checks (verified: validio.BaseValidator._reset_checks), for a rows() that calls it instead of resetting by itself:
    every check reset once, in declaration order, the run marked as begun"""
    ex.obligations.append(Obligation("protocol/reset-each-check-once-in-order", st.pc, G(st, "resets_done") == 0, "protocol", props=["C08", "C20"]))
    st.ghost["resets_done"] = st.ghost["m"]; st.heap[recv.oid]["_has_reset_checks"] = True
    yield st, None


def rows_callees():
    return {"validio.Reader._raw_rows": ModelContract(m_raw_rows), "validio.BaseValidator.validate_row": ModelContract(m_validate_row), "abs:Check.reset": AbsContract(m_reset),
            "ref:Reader._reset_checks": m_reset_checks_in_rows}


class _ListReader:
    pass


def native_reader(rows, header, until, mode, nfields=1, veto=(), log=None):
    """a real validio.Reader over stub CID objects whose _raw_rows is a list"""
    from cutplace import validio, errors
    log = [] if log is None else log
    fields = [_StubField("f%d" % i, {"a"}, log) for i in range(nfields)]
    checks = [_StubCheck("c0", set(veto), log)]
    cid = _StubCid(fields, checks, header)
    class R(validio.Reader):
        def _raw_rows(self): return iter([list(r) for r in rows])
    r = R(cid, io.StringIO(""), on_error=mode, validate_until=until)
    return r, log


class RowsOracle(Oracle):
    quick_cases = 3000
    bound = "tables of 0-4 one-cell rows over {a (accepted), b (rejected)} x header 0-2 x limit {None,0..5} x 3 modes"
    def cases(self, ctx):
        for n in range(0, 5):
            for cells in itertools.product("ab", repeat=n):
                for h in (0, 1, 2):
                    for u in (None, 0, 1, 2, 3, 5):
                        for mode in ("raise", "yield", "continue"):
                            yield (list(cells), h, u, mode)
    def check(self, case):
        from cutplace import errors
        cells, h, u, mode = case
        rows = [[c] for c in cells]
        r, log = native_reader(rows, h, u, mode)
        out = []; raised = None
        try:
            for x in r.rows(): out.append(x)
        except errors.DataError as e: raised = e
        except Exception as e: return {"expected": "rows or DataError", "observed": repr(e)}
        # expected from the statement
        exp = []; nacc = nrej = 0; exp_raise = None
        for k, row in enumerate(rows, 1):
            if k <= h: continue
            validated = (u is None or k <= u)
            good = (not validated) or row[0] == "a"
            if good: exp.append(row); nacc += 1
            else:
                nrej += 1
                if mode == "raise": exp_raise = k; break
                if mode == "yield": exp.append(("ERR", k))
        got = [x if isinstance(x, list) else ("ERR", x.location.line + 1) for x in out]
        if got != exp: return {"expected": exp, "observed": got}
        if (raised is not None) != (exp_raise is not None): return {"expected": "raise at row %r" % exp_raise, "observed": repr(raised)}
        if raised is not None and raised.location.line + 1 != exp_raise: return {"expected": "error at row %d" % exp_raise, "observed": str(raised.location)}
        if exp_raise is None and (r.accepted_rows_count, r.rejected_rows_count) != (nacc, nrej):
            return {"expected": "counters %r" % ((nacc, nrej),), "observed": "counters %r" % ((r.accepted_rows_count, r.rejected_rows_count),)}
        if log[:1] != [("reset", "c0")] or sum(1 for l in log if l[0] == "reset") != 1: return {"expected": "exactly one reset before anything else", "observed": log[:3]}
        # a second pass over the same Reader is a new data set: it starts with a reset of its own and gives the same outcome
        n0 = len(log); out2 = []; raised2 = None
        try:
            for x in r.rows(): out2.append(x)
        except errors.DataError as e: raised2 = e
        got2 = [x if isinstance(x, list) else ("ERR", x.location.line + 1 - len(rows)) for x in out2]
        if log[n0:n0 + 1] != [("reset", "c0")]: return {"expected": "a second rows() pass resets the checks before its first row", "observed": log[n0:n0 + 2]}
        return None
    def describe(self, case):
        return {"cells": case[0], "header": case[1], "validate_until": case[2], "on_error": case[3], "call": "validio.Reader(stub cid: 1 field accepting 'a', 1 check).rows() over one-cell rows"}


def unit_reader_rows():
    def make(ctx):
        return {"contract": rows_contract(), "callees": rows_callees(), "spec_functions": ROWS_SPECF,
                "assumptions": ["Reader.rows is verified against the contracts of its callees: validate_row (verdict ok(k), raises DataError built by the real constructor at the current location), _raw_rows (an arbitrary finite list of rows), check.reset (abstract, protocol-monitored)",
                                "A-ITER: the raw-row iterator terminates; exceptions it raises are outside this loop's per-row handler (checked by the readers' own contracts)",
                                "the pre-state of counters and checks is arbitrary (covers runs after failed / abandoned / unclosed earlier runs)"]}
    return ProofUnit("validio.Reader.rows", "Reader.rows: header/limit window, three error modes, counters, reset-first protocol (mode, header, limit, rows, verdicts all symbolic)",
                     ["C04", "C05", "C06", "C07", "C08", "C20"], make, RowsOracle())


# =====================================================================================================================
# BaseValidator.close : end-of-data verdicts in declaration order, cleanup for every check even if a verdict raised (C05 C20)
# =====================================================================================================================
def m_check_at_end(ex, st, recv, args, kw):
    cidx = ex.absfun_s("check_index_of", [sort_of(CHECK)], z3.IntSort())(recv.z); g = st.ghost
    ex.obligations.append(Obligation("protocol/check_at_end-once-per-check-in-declaration-order-before-any-cleanup", st.pc, z3.And(G(st, "ends_done") == cidx, G(st, "cleanups_done") == 0), "protocol", props=["C20", "C05"]))
    g["ends_done"] = Sym(INT, cidx + 1)
    okz = ex.absfun_s("end_ok", [sort_of(CHECK)], z3.BoolSort())(recv.z)
    for s2, b in ex.fork(st, Sym(BOOL, okz)):
        if b: yield s2, None
        else:
            m = fresh(STR, "msg")[0]; s2.pc.append(z3.Length(m.z) > 0)
            yield from raise_new(ex, s2, "CheckError", [m, args[0]])


def m_reset_checks_at_close(ex, st, recv, args, kw):
    """contract of _reset_checks (verified unit) used by close(): a run that never began is reset before any end-of-data verdict is asked (F-14, now for every validator)"""
    ex.obligations.append(Obligation("protocol/a-run-that-never-began-is-reset-before-the-first-end-of-data-verdict", st.pc, z3.And(G(st, "ends_done") == 0, z3.Not(G(st, "started0")), z3.Not(G(st, "closed0"))), "protocol", props=["C08", "C05", "C20"]))
    st.ghost["reset_calls"] = st.ghost["reset_calls"] + 1; st.heap[recv.oid]["_has_reset_checks"] = True; yield st, None


def m_cleanup(ex, st, recv, args, kw):
    cidx = ex.absfun_s("check_index_of", [sort_of(CHECK)], z3.IntSort())(recv.z)
    ex.obligations.append(Obligation("protocol/cleanup-each-check-once-in-order", st.pc, G(st, "cleanups_done") == cidx, "protocol", props=["C20"]))
    st.ghost["cleanups_done"] = Sym(INT, cidx + 1); yield st, None


def setup_close(ex, st):
    m = fresh(INT, "m")[0]; st.pc.append(m.z >= 0)
    names, c1 = fresh(UFList(STR), "check_names"); checks, c2 = fresh(UFList(CHECK), "checks"); st.pc.extend(c1 + c2)
    st.pc.extend([names.length == m.z, checks.length == m.z])
    check_of = z3.Function("check_of", z3.StringSort(), sort_of(CHECK)); cio = ex.absfun_s("check_index_of", [sort_of(CHECK)], z3.IntSort()); i = z3.Int("i")
    st.pc.append(z3.ForAll([i], z3.Implies(z3.And(i >= 0, i < m.z), z3.And(check_of(names.at(i)) == checks.at(i), cio(checks.at(i)) == i))))
    loc = Ref("Location"); st.heap[loc.oid] = {"file_path": "<io>", "_line": fresh(INT, "line")[0], "_column": 0, "_cell": 0, "_sheet": 0, "_has_column": False, "_has_cell": True, "_has_sheet": False}
    cid = Ref("Cid"); st.heap[cid.oid] = {"_check_names": names, "_check_name_to_check_map": UFMap(STR, CHECK, check_of, values=checks)}
    closed0 = fresh(BOOL, "closed0")[0]; started0 = fresh(BOOL, "run_started0")[0]
    self = Ref("Reader"); st.heap[self.oid] = {"_cid": cid, "_location": loc, "_is_closed": closed0, "_has_reset_checks": started0}
    st.frames[-1].env["self"] = self
    st.ghost.update({"m": m, "ends_done": 0, "cleanups_done": 0, "closed0": closed0, "started0": started0, "reset_calls": 0, "this": self, "checksv": checks})


def sf_end_ok(ex, st, j):
    return Sym(BOOL, ex.absfun_s("end_ok", [sort_of(CHECK)], z3.BoolSort())(st.ghost["checksv"].at(lift(j).z)))


def close_contract():
    return Contract("validio.BaseValidator.close", setup_close,
        returns=[Clause("implies(closed0, ends_done == 0 and cleanups_done == 0)", "second-close-does-nothing", props=["C20"]),
                 Clause("implies(not closed0, ends_done == m and cleanups_done == m and forall(j, 0 <= j and j < m, end_ok(j)))", "every-verdict-asked-once-in-order-then-every-check-cleaned-up", props=["C20", "C05"]),
                 Clause("this._is_closed == True", "marked-closed", props=["C20"]),
                 Clause(lambda ex, st: Sym(BOOL, z3.If(z3.And(z3.Not(G(st, "closed0")), z3.Not(G(st, "started0"))), z3.IntVal(1), z3.IntVal(0)) == st.ghost["reset_calls"]),
                        "the-end-of-data-verdicts-are-about-this-run:-an-open-validator-whose-run-never-began-resets-the-checks-first-(once)-any-other-does-not", props=["C08", "C05", "C20"])],
        raises={"CheckError": [
                               Clause(lambda ex, st: Sym(BOOL, z3.If(z3.And(z3.Not(G(st, "closed0")), z3.Not(G(st, "started0"))), z3.IntVal(1), z3.IntVal(0)) == st.ghost["reset_calls"]), "reset-first-also-when-a-verdict-then-fails", props=["C08", "C05"]),Clause("not closed0 and ends_done >= 1 and not end_ok(ends_done - 1) and forall(j, 0 <= j and j < ends_done - 1, end_ok(j))", "raised-by-the-first-failing-end-verdict", props=["C20", "C05"]),
                               Clause("cleanups_done == m", "cleanup-runs-for-every-check-even-if-a-verdict-raised", props=["C20"]),
                               Clause("this._is_closed == True", "closed-also-when-a-verdict-raised:-a-second-close()-asks-no-check-again", props=["C20"])]},
        loops={0: LoopSpec(invariants=["ends_done == _i0", "cleanups_done == 0", "forall(j, 0 <= j and j < _i0, end_ok(j))"], havoc={"check_name": STR}, ghost_havoc={"ends_done": INT}),
               1: LoopSpec(invariants=["cleanups_done == _i1"], havoc={"check": CHECK}, ghost_havoc={"cleanups_done": INT})},
        expect=["return", "CheckError"], n_loops=2, modifies=["Reader._is_closed", "Reader._has_reset_checks"])


class CloseOracle(Oracle):
    quick_cases = 200
    bound = "0-3 recording stub checks, each end verdict passing or failing, first and second close"
    def cases(self, ctx):
        for n in range(0, 4):
            for fails in itertools.product((False, True), repeat=n):
                yield list(fails)
    def check(self, fails):
        from cutplace import validio, errors
        log = []
        checks = [_StubCheck("c%d" % i, set(), log, fail_at_end=f) for i, f in enumerate(fails)]
        v = validio.BaseValidator(_StubCid([_StubField("f0", {"a"}, log)], checks)); v._location = errors.Location("<io>", has_cell=True)
        v._has_reset_checks = True       # a run under way (the case of a run that never began: C08.history 'nothing_fed', 'validate_0', 'reader_unused')
        try: v.close(); out = "return"
        except errors.CheckError: out = "CheckError"
        except Exception as e: return {"expected": "return or CheckError", "observed": repr(e)}
        first = next((i for i, f in enumerate(fails) if f), None)
        exp_log = [("check_at_end", "c%d" % i) for i in range(len(fails) if first is None else first + 1)] + [("cleanup", "c%d" % i) for i in range(len(fails))]
        if log != exp_log: return {"expected": exp_log, "observed": log}
        if out != ("return" if first is None else "CheckError"): return {"expected": "return" if first is None else "CheckError", "observed": out}
        if first is None:
            n0 = len(log); v.close()
            if len(log) != n0: return {"expected": "second close produces no event", "observed": log[n0:]}
        return None
    def describe(self, c): return {"end_verdict_fails": c, "call": "BaseValidator(stub cid).close() [twice when the first succeeds]"}


def unit_close():
    def make(ctx):
        return {"contract": close_contract(), "callees": {"abs:Check.check_at_end": AbsContract(m_check_at_end), "abs:Check.cleanup": AbsContract(m_cleanup), "ref:Reader._reset_checks": m_reset_checks_at_close}, "spec_functions": {"end_ok": sf_end_ok},
                "assumptions": ["checks are abstract plug-ins: check_at_end raises only CheckError (verdict end_ok), cleanup does not raise; check_map.values() lists the checks in declaration order (dict insertion order, Python >= 3.7)"]}
    return ProofUnit("validio.BaseValidator.close", "close(): end verdicts once in declaration order, cleanup for every check (finally), idempotent after success", ["C20", "C05", "C08"], make, CloseOracle())


# =====================================================================================================================
# Writer: __init__ (fresh checks), write_row (validate first, pad, delegate), _padded_fixed_row (C14 C08 C20)
# =====================================================================================================================
FNL = Tup(STR, INT)


def m_new_row_writer(cls_name):
    def m(ex, st, info, args, kw):
        w = Ref(cls_name); loc = Ref("Location")
        st.heap[loc.oid] = {"file_path": "<io>", "_line": 0, "_column": 0, "_cell": 0, "_sheet": 0, "_has_column": False, "_has_cell": True, "_has_sheet": False}
        st.heap[w.oid] = {"_location": loc, "_data_format": args[1]}
        st.ghost["delegated"] = w; st.ghost["writer_args"] = list(args)
        yield st, w
    return m


def m_field_names_and_lengths(ex, st, fn, args, kw):
    yield st, st.ghost["fnl"]


def setup_writer_init(fmt):
    def setup(ex, st):
        m = fresh(INT, "m")[0]; st.pc.append(m.z >= 0)
        checks, c2 = fresh(UFList(CHECK), "checks"); st.pc.extend(c2); st.pc.append(checks.length == m.z)
        i = z3.Int("i"); cio = ex.absfun_s("check_index_of", [sort_of(CHECK)], z3.IntSort())
        st.pc.append(z3.ForAll([i], z3.Implies(z3.And(i >= 0, i < m.z), cio(checks.at(i)) == i)))
        fields, c1 = fresh(UFList(FIELD), "fields"); st.pc.extend(c1)
        fnl, c3 = fresh(UFList(FNL), "fnl"); st.pc.extend(c3)
        df = Ref("DataFormat"); st.heap[df.oid] = {"_format": fmt, "_is_valid": True, "_header": fresh(INT, "header")[0]}
        cid = Ref("Cid"); st.heap[cid.oid] = {"_data_format": df, "_field_formats": fields, "_check_name_to_check_map": UFMap(STR, CHECK, None, values=checks)}
        self = Ref("Writer"); st.heap[self.oid] = {}
        st.frames[-1].env.update({"self": self, "cid_or_path": cid, "target": Ref("Target")})
        st.ghost.update({"m": m, "resets_done": 0, "this": self, "fnl": fnl, "cid": cid, "delegated": None})
    return setup


def writer_init_contract(fmt):
    supported = fmt in ("delimited", "fixed")
    cls = {"delimited": "DelimitedRowWriter", "fixed": "FixedRowWriter"}.get(fmt)
    def delegated_ok(ex, st):
        w = st.heap[st.ghost["this"].oid].get("_delegated_writer")
        return Sym(BOOL, z3.BoolVal(isinstance(w, Ref) and w.cls == cls and w == st.ghost["delegated"]))
    return Contract("validio.Writer.__init__", setup_writer_init(fmt),
        returns=[Clause("resets_done == 0 and this._has_reset_checks == False", "creating-a-writer-touches-no-check-and-leaves-the-run-not-begun:-the-first-validated-row-(or-close())-resets-the-checks-(validate_row-/-close-contracts)", props=["C08", "C14", "C20"]),
                 Clause(delegated_ok, "rows-are-delegated-to-the-writer-of-the-cid's-format", props=["C14"]),
                 Clause("this._cid is cid and this._is_closed == False", "bound-to-the-given-cid", props=["C14"])] if supported else [Clause("False", "unsupported-format-has-no-writer")],
        raises={} if supported else {"NotImplementedError": []},
        expect=["return"] if supported else ["NotImplementedError"], n_loops=0)


def unit_writer_init():
    def make(ctx):
        return [{"contract": writer_init_contract(f), "label": "format " + f,
                 "callees": {"class:DelimitedRowWriter": m_new_row_writer("DelimitedRowWriter"), "class:FixedRowWriter": m_new_row_writer("FixedRowWriter"),
                             "interface.field_names_and_lengths": ModelContract(m_field_names_and_lengths), "abs:Check.reset": AbsContract(m_reset)},
                 "assumptions": ["the row writers' constructors are used through their contracts (rowio units); reset() of a check is abstract and protocol-monitored"]} for f in ("delimited", "fixed", "excel")]
    return ProofUnit("validio.Writer.__init__", "Writer.__init__: delegated writer of the right kind; the checks are left alone (reset with the first validated row or at close)", ["C08", "C14", "C20"], make, None)


# ---- write_row
def m_w_validate_row(ex, st, fn, args, kw):
    st.ghost["validate_calls"] = Sym(INT, G(st, "validate_calls") + 1)
    # F-20: for fixed-width data the row judged is the row as it will be written (padded), so that reading the output back judges the same values;
    # a row with the wrong number of items cannot be padded and is judged (and rejected: the count clause of validate_row's contract) as it is
    fixed = st.heap[st.heap[st.heap[st.ghost["this"].oid]["_cid"].oid]["_data_format"].oid]["_format"] == "fixed"
    count_ok = st.ghost["row"].length == G(st, "nfields")
    if fixed:
        padded_given = z3.BoolVal(st.ghost["padded"] is not None and args[0] is st.ghost["padded"] and st.ghost["padded_from"] is st.ghost["row"])
        goal = z3.If(count_ok, padded_given, z3.BoolVal(args[0] is st.ghost["row"]))
        st.pc.append(z3.Implies(st.ghost["row_ok"].z, count_ok))
    else: goal = z3.BoolVal(args[0] is st.ghost["row"])
    ex.obligations.append(Obligation("validate_row-receives-the-row-as-it-will-be-written-(fixed:-padded)", st.pc, goal, "protocol", props=["C14"]))
    ex.obligations.append(Obligation("validate_row-before-anything-is-written", st.pc, G(st, "writes") == 0, "protocol", props=["C14"]))
    okz = st.ghost["row_ok"].z
    for s2, b in ex.fork(st, Sym(BOOL, okz)):
        if b: yield s2, None
        else: yield from raise_new(ex, s2, "DataError")


def m_padded(ex, st, fn, args, kw):
    st.ghost["padded_from"] = args[0]; p, c = fresh(UFList(STR), "padded"); st.pc.extend(c); st.ghost["padded"] = p; yield st, p


def m_delegate_write_row(ex, st, recv, args, kw):
    st.ghost["writes"] = Sym(INT, G(st, "writes") + 1); st.ghost["written"] = args[0]
    loc = st.heap[recv.oid]["_location"]; st.heap[loc.oid]["_line"] = Sym(INT, lift(st.heap[loc.oid]["_line"]).z + 1)
    fail = fresh(BOOL, "encode_error")[0]
    for s2, b in ex.fork(st, fail):
        if b: yield from raise_new(ex, s2, "DataFormatError")
        else: yield s2, None


def setup_write_row(fmt):
    def setup(ex, st):
        row, c = fresh(UFList(STR), "row"); st.pc.extend(c)
        header = fresh(INT, "header")[0]; line0 = fresh(INT, "line0")[0]; st.pc.extend([header.z >= 0, line0.z >= 0])
        loc = Ref("Location"); st.heap[loc.oid] = {"file_path": "<io>", "_line": line0, "_column": 0, "_cell": 0, "_sheet": 0, "_has_column": False, "_has_cell": True, "_has_sheet": False}
        w = Ref("FixedRowWriter" if fmt == "fixed" else "DelimitedRowWriter"); st.heap[w.oid] = {"_location": loc}
        df = Ref("DataFormat"); st.heap[df.oid] = {"_format": fmt, "_is_valid": True, "_header": header}
        fields, cf = fresh(UFList(FIELD), "fields"); st.pc.extend(cf)
        cid = Ref("Cid"); st.heap[cid.oid] = {"_data_format": df, "_field_formats": fields}
        fnl, cn = fresh(UFList(FNL), "fnl"); st.pc.extend(cn); st.pc.append(fnl.length == fields.length)
        self = Ref("Writer"); st.heap[self.oid] = {"_cid": cid, "_header": header, "_delegated_writer": w, "_is_closed": False, "_field_names_and_lengths": fnl}
        st.ghost["fnl"] = fnl
        st.frames[-1].env.update({"self": self, "row_to_write": row}); st.ghost["nfields"] = Sym(INT, fields.length)
        st.ghost.update({"row": row, "header": header, "line0": line0, "loc": loc, "writes": 0, "validate_calls": 0, "row_ok": fresh(BOOL, "row_ok")[0], "written": None, "padded": None, "padded_from": None, "this": self})
    return setup


def write_row_contract(fmt):
    FN = sort_of(FNL)
    def emitted(st):       # the row handed on: the padded row when the item count matches, else the row itself
        return st.ghost["padded"] if st.ghost.get("padded") is not None else st.ghost["row"]
    def fits_upto(ex, st, k):
        """the first k items of the emitted row are exactly as wide as their fields (what a header row of fixed data has to be)"""
        kk = lift(k).z; r = emitted(st); fnl = st.ghost["fnl"]; j = z3.Int("j!hf")
        return Sym(BOOL, z3.ForAll([j], z3.Implies(z3.And(0 <= j, j < kk), z3.Length(r.at(j)) == FN.accessor(0, 1)(fnl.at(j)))))
    def hdr_fits(ex, st):
        r = emitted(st); fnl = st.ghost["fnl"]
        return z3.And(r.length == fnl.length, fits_upto(ex, st, Sym(INT, r.length)).z)
    def wrote_expected(ex, st):
        w = st.ghost["written"]
        if fmt == "fixed":
            # a row with as many items as there are fields is emitted padded; any other row can only be an (unvalidated) header row, which is the caller's business
            return Sym(BOOL, z3.If(st.ghost["row"].length == G(st, "nfields"), z3.BoolVal(w is not None and w is st.ghost["padded"] and st.ghost["padded_from"] is st.ghost["row"]), z3.BoolVal(w is st.ghost["row"])))
        return Sym(BOOL, z3.BoolVal(w is st.ghost["row"]))
    c = Contract("validio.Writer.write_row", setup_write_row(fmt),
        returns=[Clause("writes == 1", "an-accepted-row-is-emitted-exactly-once", props=["C14"]),
                 Clause(wrote_expected, "what-is-emitted-is-the-row-(fixed:-the-padded-row)", props=["C14"]),
                 Clause("implies(line0 >= header, validate_calls == 1 and row_ok)", "beyond-the-header-only-validated-rows-are-emitted", props=["C14", "C20"]),
                 Clause("implies(line0 < header, validate_calls == 0)", "header-rows-are-written-unvalidated", props=["C14", "C20", "C07"])]
                + ([Clause(lambda ex, st: Sym(BOOL, z3.Implies(G(st, "line0") < G(st, "header"), hdr_fits(ex, st))), "a-header-row-of-fixed-data-is-emitted-only-if-it-fits-the-layout-(item-count-and-widths)", props=["C14", "C07"])] if fmt == "fixed" else []),
        raises={"DataError": [Clause(lambda ex, st: Sym(BOOL, z3.Or(z3.And(G(st, "line0") >= G(st, "header"), G(st, "validate_calls") == 1, z3.Not(G(st, "row_ok")), G(st, "writes") == 0, lift(st.heap[st.ghost["loc"].oid]["_line"]).z == G(st, "line0")),
                                                                  G(st, "writes") == 1,
                                                                  z3.And(z3.BoolVal(fmt == "fixed"), G(st, "line0") < G(st, "header"), z3.Not(hdr_fits(ex, st)), G(st, "writes") == 0, G(st, "validate_calls") == 0, lift(st.heap[st.ghost["loc"].oid]["_line"]).z == G(st, "line0")))),
                                     "a-rejected-row-(or-a-header-row-that-does-not-fit-a-fixed-layout)-emits-nothing-and-leaves-the-writer-where-it-was", props=["C14"])]},
        loops=({0: LoopSpec(invariants=["fits == fits_upto(_i0)"], havoc={"fits": BOOL, "item": STR, "_": STR, "fixed_field_length": INT, "field_index": INT})}),
        expect=["return", "DataError"], n_loops=1, modifies=["Location._line"])
    c._fits_upto = fits_upto
    return c


def unit_writer_write_row():
    def make(ctx):
        return [{"contract": write_row_contract(f), "label": "format " + f, "spec_functions": {"fits_upto": write_row_contract(f)._fits_upto},
                 "callees": {"validio.BaseValidator.validate_row": ModelContract(m_w_validate_row), "validio.Writer._padded_fixed_row": ModelContract(m_padded),
                             "ref:FixedRowWriter.write_row": m_delegate_write_row, "ref:DelimitedRowWriter.write_row": m_delegate_write_row},
                 "assumptions": ["callee contracts: validate_row (verified), _padded_fixed_row (verified below), the delegated writer's write_row (rowio units): writes one row, advances its location, raises only DataFormatError"]} for f in ("delimited", "fixed")]
    return ProofUnit("validio.Writer.write_row", "Writer.write_row: validate first (fixed: the padded row, i.e. what is written); nothing emitted and position unchanged on rejection", ["C14", "C20"], make, None)


# ---- _padded_fixed_row
def pad_z(ex, v, w):
    rep = ex.absfun_s("str_repeat", [z3.StringSort(), z3.IntSort()], z3.StringSort())(z3.StringVal(" "), w - z3.Length(v))
    return z3.If(z3.Length(v) < w, z3.Concat(v, rep), v)


def unit_padded_fixed_row():
    def setup(ex, st):
        n = fresh(INT, "n")[0]; st.pc.append(n.z >= 0)
        row, c = fresh(UFList(STR), "row"); fnl, c2 = fresh(UFList(FNL), "fnl"); fields, c3 = fresh(UFList(FIELD), "fields"); st.pc.extend(c + c2 + c3)
        st.pc.extend([fnl.length == n.z, fields.length == n.z])
        cid = Ref("Cid"); st.heap[cid.oid] = {"_field_formats": fields}
        self = Ref("Writer"); st.heap[self.oid] = {"_cid": cid, "_field_names_and_lengths": fnl}
        st.frames[-1].env.update({"self": self, "row": row}); st.ghost.update({"row": row, "fnl": fnl, "n": n})
    def padded_upto(ex, st, res, k):
        kk = lift(k).z; row = st.ghost["row"]; fnl = st.ghost["fnl"]; j = z3.Int("j!pd"); W = sort_of(FNL).accessor(0, 1)
        if isinstance(res, list): return Sym(BOOL, z3.And(z3.BoolVal(len(res) == 0), kk == 0))
        return Sym(BOOL, z3.And(res.length == kk, z3.ForAll([j], z3.Implies(z3.And(0 <= j, j < kk), res.at(j) == pad_z(ex, row.at(j), W(fnl.at(j)))))))
    def make(ctx):
        return {"contract": Contract("validio.Writer._padded_fixed_row", setup, requires=["len(row) == n"],
                    returns=[Clause("padded_upto(result, n)", "every-item-right-padded-with-blanks-to-its-field-width-nothing-else-changed", props=["C14"])],
                    raises={}, loops={0: LoopSpec(invariants=["padded_upto(result, _i0)"], havoc={"result": UFList(STR), "field_index": INT, "field_value": STR, "field_value_length": INT, "_": STR, "fixed_field_length": INT})},
                    expect=["return"], n_loops=1, modifies=[]),
                "spec_functions": {"padded_upto": padded_upto},
                "assumptions": ["A-STR: ' ' * k is a string of k blanks (uninterpreted repetition with its length)"]}
    return ProofUnit("validio.Writer._padded_fixed_row", "_padded_fixed_row: item i becomes item + blanks up to the field width", ["C14"], make, None)


# ---- native side for the writer: write rows, read them back
class WriterOracle(Oracle):
    quick_cases = 8000
    bound = "sequences of 0-4 rows (0-6 thorough) from a pool of accepted / field-rejected / wrong-count / duplicate rows x {delimited, fixed} x header 0-1, read back under the same CID; writer used after an earlier read with the same CID"
    POOL = [["1", "ab"], ["2", "c"], ["1", "zz"], ["x", "ab"], ["3"], ["4", "ab", "q"], ["5", "toolong"], ["6", ""], [" 7", " b"]]       # the last one: leading blanks are part of the value
    def cases(self, ctx):
        k = 0
        for fmt in ("fixed-crlf", "fixed-cr", "fixed-none", "delimited", "fixed"):          # the small families first: the quick tier's case budget must not cut them off
            for header in (0, 1):
                for n in range(0, 7 if ctx.thorough else 5):
                    if fmt.startswith("fixed-") and n > 2: continue
                    for rows in itertools.product(range(len(self.POOL)), repeat=n):
                        k += 1
                        if n >= 3 and k % (3 if ctx.thorough else 11): continue
                        yield (fmt, header, list(rows))
    def cid(self, fmt, header):
        from cutplace import interface
        if fmt == "delimited": text = "d,format,delimited\nd,header,%d\nf,id,,,1...3,Integer\nf,name,,x,...3\nc,u,IsUnique,id\n" % header
        else: text = "d,format,fixed\nd,header,%d\nd,line delimiter,%s\nf,id,,,3,Integer\nf,name,,x,3\nc,u,IsUnique,id\n" % (header, {"fixed": "lf", "fixed-crlf": "crlf", "fixed-cr": "cr", "fixed-none": "none"}[fmt])
        return interface.create_cid_from_string(text)
    def check(self, c):
        from cutplace import validio, errors
        fmt0, header, idx = c
        cid = self.cid(fmt0, header); fmt = "fixed" if fmt0.startswith("fixed") else fmt0; sep = {"delimited": "\r\n", "fixed": "\n", "fixed-crlf": "\r\n", "fixed-cr": "\r", "fixed-none": ""}[fmt0]
        list(validio.rows(cid, io.StringIO("1,ab\n" if fmt == "delimited" and header == 0 else ""), on_error="continue"))   # earlier use of the same CID must not matter (C08)
        out = io.StringIO(); w = validio.Writer(cid, out)
        accepted = []; seen = set(); pos = 0
        for i in idx:
            row = self.POOL[i]; is_header = pos < header
            def good(r):
                if len(r) != 2: return False
                try: v = int(r[0])
                except ValueError: return False
                return len(r[0]) <= 3 and len(r[1]) <= 3 and r[0].strip() != "" and r[0] not in seen
            exp_ok = True if is_header else good(row)
            if is_header and (len(row) != 2 or (fmt == "fixed" and any(len(x) > 3 for x in row))): continue   # ill-shaped header rows are the caller's business
            before = out.getvalue()
            try: w.write_row(list(row)); obs = True
            except errors.DataError: obs = False
            except Exception as e: return {"expected": "write or DataError", "observed": repr(e)}
            if obs != exp_ok: return {"expected": "row %r %s" % (row, "written" if exp_ok else "rejected"), "observed": "written" if obs else "rejected"}
            if not obs and out.getvalue() != before: return {"expected": "nothing emitted for a rejected row", "observed": repr(out.getvalue()[len(before):])}
            if obs:
                pos += 1
                if not is_header: seen.add(row[0]); accepted.append(row)
                exp_text = (",".join(row) + sep) if fmt == "delimited" else ("".join(x.ljust(3) for x in row) + sep)
                if out.getvalue() != before + exp_text: return {"expected": repr(exp_text), "observed": repr(out.getvalue()[len(before):])}
        try: w.close()
        except errors.DataError as e: return {"expected": "close without error", "observed": repr(e)}
        # read back under a freshly loaded CID
        try: back = list(validio.rows(self.cid(fmt0, header), io.StringIO(out.getvalue())))
        except errors.DataError as e: return {"expected": "output validates again", "observed": "%s (text %r)" % (e, out.getvalue())}
        want = [[x.ljust(3) for x in r] for r in accepted] if fmt == "fixed" else accepted
        return None if back == want else {"expected": want, "observed": back}
    def describe(self, c): return {"format": c[0], "header": c[1], "rows": [self.POOL[i] for i in c[2]], "call": "validio.Writer(cid, StringIO).write_row(...) per row, close(), then validio.rows(cid, output)"}


class WriterFileOracle(Oracle):
    """writer bound to a *path* (the writer opens and owns the file, in the CID's encoding): unencodable rows are rejected without a trace,
    the file read back from the path under the same CID returns the accepted rows"""
    bound = "1-2 rows of two text cells over {ab, e-acute, euro, a CR b, a LF b, quote, comma} x encodings {utf-8, ascii, latin-1} x delimited (line delimiter any/lf/cr/crlf) and fixed (lf/crlf/cr/none), written to and read back from a file"
    VALUES = ["ab", "\u00e9", "\u20ac", "a\rb", "a\nb", 'a"b', "a,b"]
    def __init__(self):
        self.known_k10 = findings.is_known("K-10", "C14"); self.k10 = []
    def cases(self, ctx):
        rows1 = [[a, b] for a in self.VALUES for b in self.VALUES]
        for fmt in ("delimited", "fixed"):
            for ld in (("any", "lf", "cr", "crlf") if fmt == "delimited" else ("lf", "crlf", "cr", "none")):
                for enc in ("utf-8", "ascii", "latin-1"):
                    for i, r in enumerate(rows1):
                        yield (fmt, ld, enc, [r])
                        if i % 5 == 0 or ctx.thorough:
                            for r2 in rows1[::(3 if ctx.thorough else 9)]: yield (fmt, ld, enc, [r, r2])
    def check(self, c):
        import tempfile, os, shutil
        from cutplace import interface, validio, errors
        fmt, ld, enc, rows = c
        if fmt == "delimited": text = "d,format,delimited\nd,encoding,%s\nd,line delimiter,%s\nf,a,,x,...3\nf,b,,x,...3\n" % (enc, ld)
        else: text = "d,format,fixed\nd,encoding,%s\nd,line delimiter,%s\nf,a,,x,3\nf,b,,x,3\n" % (enc, ld)
        d = tempfile.mkdtemp(prefix="c14_"); path = os.path.join(d, "out.txt")
        try:
            cid = interface.create_cid_from_string(text)
            accepted = []
            with validio.Writer(cid, path) as w:
                for r in rows:
                    try: "".join(r).encode(enc); encodable = True
                    except UnicodeEncodeError: encodable = False
                    try: w.write_row(list(r)); obs = True
                    except errors.DataError: obs = False
                    except Exception as e: return {"expected": "write or DataError", "observed": repr(e)}
                    if obs != encodable: return {"expected": "row %r %s" % (r, "written" if encodable else "rejected (not encodable in %s)" % enc), "observed": "written" if obs else "rejected"}
                    if obs: accepted.append(r)
            sep = {"any": "\r\n" if fmt == "delimited" else os.linesep, "lf": "\n", "cr": "\r", "crlf": "\r\n", "none": ""}[ld]
            raw = open(path, "rb").read().decode(enc)
            if fmt == "fixed":
                want_text = "".join("".join(x.ljust(3) for x in r) + sep for r in accepted)
                if raw != want_text: return {"expected": "file content %r (exactly the accepted rows, nothing for a rejected row)" % want_text, "observed": repr(raw)}
            else:
                # delimited: the accepted rows in csv notation (the CID's defaults: comma, double quote, minimal quoting), each ended by the declared line delimiter
                import csv, io as _io
                def as_csv(lt):
                    buf = _io.StringIO(); csv.writer(buf, delimiter=",", quotechar='"', doublequote=True, quoting=csv.QUOTE_MINIMAL, lineterminator=lt).writerows(accepted); return buf.getvalue()
                if raw != as_csv(sep):
                    # recorded finding K-10: the delimited writer ends every line with CR LF whatever the CID declares; excused is exactly that content
                    if self.known_k10 and ld in ("lf", "cr") and raw == as_csv("\r\n"): self.k10.append((c, raw))
                    else: return {"expected": "file content %r (the accepted rows, each ended by the declared line delimiter, nothing for a rejected row)" % as_csv(sep), "observed": repr(raw)}
            try: back = list(validio.rows(interface.create_cid_from_string(text), path))
            except errors.DataError as e: return {"expected": "the written file validates again", "observed": "%s (file %r)" % (e, raw)}
            want = [[x.ljust(3) for x in r] for r in accepted] if fmt == "fixed" else accepted
            return None if back == want else {"expected": "read back %r" % want, "observed": "%r (file %r)" % (back, raw)}
        finally:
            shutil.rmtree(d, ignore_errors=True)
    def describe(self, c): return {"format": c[0], "line delimiter": c[1], "encoding": c[2], "rows": c[3], "call": "validio.Writer(cid, path).write_row per row, close, validio.rows(cid, path)"}


def _writer_close_with_failing_end_check(fmt):
    """a CID whose end-of-data check fails when the writer is closed: the rows accepted before are in the file, and the file is closed"""
    import tempfile, os, shutil
    from cutplace import interface, validio, errors
    text = ("d,format,delimited\nf,a\nf,b\nc,few,DistinctCount,a < 2\n" if fmt == "delimited" else "d,format,fixed\nd,line delimiter,lf\nf,a,,,2\nf,b,,,2\nc,few,DistinctCount,a < 2\n")
    d = tempfile.mkdtemp(prefix="c14_"); path = os.path.join(d, "out.txt")
    try:
        w = validio.Writer(interface.create_cid_from_string(text), path)
        rows = [["a1", "b1"], ["a2", "b2"], ["a3", "b3"]]
        for r in rows: w.write_row(list(r))
        try: w.close(); return {"expected": "CheckError from close() (3 distinct values, rule a < 2)", "observed": "closed without error"}
        except errors.CheckError: pass
        raw = open(path, "r", encoding="cp1252", newline="").read()
        want = "".join((",".join(r) + "\r\n") if fmt == "delimited" else ("".join(r) + "\n") for r in rows)
        if raw != want: return {"expected": "after the failing close() the file holds the accepted rows %r" % want, "observed": repr(raw)}
        return None
    finally:
        shutil.rmtree(d, ignore_errors=True)


def _writer_from_cid_path(fmt):
    """Writer accepts 'cid_or_path' like Reader does: created from the path of a CID file it writes the same as from the loaded Cid"""
    import tempfile, os, shutil
    from cutplace import interface, validio, errors
    text = ("d,format,delimited\nf,a\nf,b\n" if fmt == "delimited" else "d,format,fixed\nd,line delimiter,lf\nf,a,,,2\nf,b,,,2\n")
    d = tempfile.mkdtemp(prefix="c14_")
    try:
        cid_path = os.path.join(d, "cid.csv"); open(cid_path, "w", encoding="utf-8").write(text)
        outs = []
        for k, cid in enumerate((interface.Cid(cid_path), cid_path)):
            out = os.path.join(d, "out%d.txt" % k)
            try:
                with validio.Writer(cid, out) as w: w.write_row(["a1", "b1"]); w.write_row(["a2", "b2"])
            except errors.CutplaceError as e: return {"expected": "two rows written", "observed": repr(e)}
            outs.append(open(out, "rb").read())
        return None if outs[0] == outs[1] and outs[0] else {"expected": "the same output from Writer(Cid, ...) and Writer(path of the CID, ...)", "observed": repr(outs)}
    finally:
        shutil.rmtree(d, ignore_errors=True)


def _writer_header_rows(case):
    """header rows are written unvalidated (C07) - but a header row that does not fit a fixed layout is refused with a data error, nothing is written for it, and the output reads back"""
    from cutplace import interface, validio, errors
    fmt, header = case
    text = ("d,format,delimited\nd,header,1\nf,a,,,,Integer\nf,b\n" if fmt == "delimited" else "d,format,fixed\nd,line delimiter,lf\nd,header,1\nf,a,,,3,Integer\nf,b,,,2\n")
    out = io.StringIO(); w = validio.Writer(interface.create_cid_from_string(text), out)
    fits = fmt == "delimited" or (len(header) == 2 and all(isinstance(x, str) for x in header) and len(header[0]) <= 3 and len(header[1]) <= 2)
    if fmt == "delimited" and not all(isinstance(x, str) for x in header): return None      # (the csv module writes str() of anything)
    try: w.write_row(list(header)); got = True
    except errors.DataError: got = False
    except Exception as e: return {"expected": "header row written or a DataError", "observed": "%s: %s" % (type(e).__name__, str(e)[:80])}
    if got != fits: return {"expected": "header row %s" % ("written" if fits else "refused"), "observed": "written" if got else "refused"}
    if not got: w.write_row(["id", "nm"])          # a fitting header row after the refused one
    w.write_row(["  7" if fmt == "fixed" else "7", "xy"]); w.close()
    back = list(validio.rows(interface.create_cid_from_string(text), io.StringIO(out.getvalue())))
    return None if back == [["  7" if fmt == "fixed" else "7", "xy"]] else {"expected": "the data row reads back after the header row", "observed": "%r from %r" % (back, out.getvalue())}


def _writer_non_string_items(fmt):
    """items that are no strings are rejected like any other bad cell (a FieldValueError naming the field), the writer goes on"""
    from cutplace import interface, validio, errors
    text = ("d,format,delimited\nf,a\nf,b\n" if fmt == "delimited" else "d,format,fixed\nd,line delimiter,lf\nf,a,,,2\nf,b,,,2\n")
    out = io.StringIO(); w = validio.Writer(interface.create_cid_from_string(text), out)
    for row in (["a1", 5], [None, "b2"], ["a3", 1.5], [b"a4", "b4"], ["a5", ["x"]]):
        try: w.write_row(list(row)); return {"expected": "row %r rejected" % (row,), "observed": "written"}
        except errors.FieldValueError: pass
        except Exception as e: return {"expected": "FieldValueError for row %r" % (row,), "observed": "%s: %s" % (type(e).__name__, e)}
    w.write_row(["a6", "b6"]); w.close()
    want = "a6,b6\r\n" if fmt == "delimited" else "a6b6\n"
    return None if out.getvalue() == want else {"expected": repr(want), "observed": repr(out.getvalue())}


def _writer_unique_on_what_is_written(case):
    """IsUnique in a fixed-width CID: the writer judges the values as they are written (padded), so that the output validates again"""
    from cutplace import interface, validio, errors
    values = case
    cid_text = "d,format,fixed\nd,line delimiter,lf\nf,a,,x,3\nf,n,,,1,Integer\nc,u,IsUnique,a\n"
    out = io.StringIO(); w = validio.Writer(interface.create_cid_from_string(cid_text), out); written = []
    for i, v in enumerate(values):
        try: w.write_row([v, str(i % 10)]); written.append(v)
        except errors.DataError: pass
    w.close()
    try: back = list(validio.rows(interface.create_cid_from_string(cid_text), io.StringIO(out.getvalue())))
    except errors.DataError as e: return {"expected": "the output of the writer validates again (rows written: %r)" % written, "observed": "%s (output %r)" % (e, out.getvalue())}
    want = [[v.ljust(3), str(i % 10)] for i, v in enumerate(values) if v in written and values.index(v) == i]
    return None if len(back) == len(written) else {"expected": "%d rows read back" % len(written), "observed": back}


def unit_writer_file_sweep():
    def run(ctx):
        f = WriterFileOracle()
        res = [sweep("C14/sweep/write to a file in the CID's encoding, read the file back", f.cases(ctx), f.check, "bounded", f.bound + (" (line ends of delimited output under line delimiter lf / cr: recorded finding K-10)" if f.known_k10 else ""),
                     describe=f.describe, function="validio.Writer + rowio writers + validio.rows", unit="C14.files")]
        # encodings that map several characters to one byte sequence (recorded finding K-14): what is read back is not what was written
        known14 = findings.is_known("K-14", "C14"); k14 = []
        def lossy_cases():
            for enc, ch in (("shift_jis", "\u00a5"), ("shift_jis", "\u203e"), ("euc_jp", "\u203e"), ("cp932", "\u00a2")):
                for fmt in ("delimited", "fixed"): yield (fmt, "any" if fmt == "delimited" else "lf", enc, [[ch, "ab"]])
            for enc in ("shift_jis", "euc_jp", "cp932"): yield ("delimited", "any", enc, [["ab", "cd"]])       # ordinary text under the same encodings round-trips
        def lossy_check(c):
            bad = f.check(c)
            if bad and known14 and any(ch in "".join(c[3][0]) for ch in "\u00a5\u203e\u00a2") and ("read back" in str(bad.get("expected")) or "file content" in str(bad.get("expected"))): k14.append((c, bad)); return None
            return bad
        res.append(sweep("C14/sweep/encodings that are not one-to-one", lossy_cases(), lossy_check, "bounded", "yen sign / overline / cent sign under shift_jis, euc_jp, cp932 (delimited and fixed) + ordinary text under the same encodings" + (" (recorded finding K-14)" if known14 else ""),
                         describe=f.describe, function="validio.Writer + validio.rows", unit="C14.files", props=["C14", "C12"]))
        if k14:
            c, bad = k14[0]
            res.append(Result("C14/K-14 witness: under an encoding that is not one-to-one a written character reads back as another one", "bounded", FAILED, "native", finding="K-14", cases=len(k14), props=["C14", "C12"], detail=str(bad)[:300],
                              replay={"verdict": "confirmed", "input": f.describe(c), "expected": bad.get("expected"), "observed": bad.get("observed")}))
        # a row refused for its encoding must leave the stream as it was; stateful codecs do not (recorded finding K-16)
        known16 = findings.is_known("K-16", "C14"); k16 = []
        def stateful_cases():
            for enc, bad_row in (("iso2022_jp", ["\u3042\u20ac", "x"]), ("utf-16", ["\udce9", "x"]), ("utf-8", ["\udce9", "x"]), ("cp1252", ["\u3042", "x"])):
                for fmt in ("delimited", "fixed"): yield (fmt, enc, bad_row)
        def stateful_check(c):
            import tempfile, os, shutil
            from cutplace import interface, validio, errors
            fmt, enc, bad_row = c
            text = ("d,format,delimited\nd,encoding,%s\nf,a,,x,...3\nf,b,,x,...3\n" if fmt == "delimited" else "d,format,fixed\nd,line delimiter,lf\nd,encoding,%s\nf,a,,x,3\nf,b,,x,3\n") % enc
            good = [["\u3042" if enc in ("iso2022_jp", "utf-16", "utf-8") else "\u00e4", "ab"], ["cd", "ef"]]
            d = tempfile.mkdtemp(prefix="c14_"); path = os.path.join(d, "out.txt")
            try:
                with validio.Writer(interface.create_cid_from_string(text), path) as w:
                    try: w.write_row(list(bad_row)); return {"expected": "row %r rejected (not encodable in %s)" % (bad_row, enc), "observed": "written"}
                    except errors.DataError: pass
                    for r in good: w.write_row(list(r))
                want = [[x.ljust(3) for x in r] for r in good] if fmt == "fixed" else good
                try: back = list(validio.rows(interface.create_cid_from_string(text), path))
                except errors.DataError as e: back = "DataError: %s" % str(e)[:80]
                if back == want: return None
                if known16 and enc in ("iso2022_jp", "utf-16"): k16.append((c, back)); return None
                return {"expected": "after the rejected row the writer goes on: read back %r" % want, "observed": repr(back)}
            finally: shutil.rmtree(d, ignore_errors=True)
        res.append(sweep("C14/sweep/a row rejected for its encoding leaves the output as it was", stateful_cases(), stateful_check, "bounded", "iso2022_jp, utf-16, utf-8, cp1252 x delimited and fixed: an unencodable first row, then two rows" + (" (stateful codecs: recorded finding K-16)" if known16 else ""),
                         describe=lambda c: {"format": c[0], "encoding": c[1], "rejected row": c[2]}, function="rowio writers (target opened by path)", unit="C14.files", props=["C14", "C12"]))
        if k16:
            res.append(Result("C14/K-16 witness: after a row rejected for its encoding a stateful codec leaves the stream changed; later rows do not read back", "bounded", FAILED, "native", finding="K-16", cases=len(k16), props=["C14", "C12"], detail=repr(k16[0])[:300],
                              replay={"verdict": "confirmed", "input": {"format": k16[0][0][0], "encoding": k16[0][0][1], "rejected row": k16[0][0][2]}, "expected": "the rows written after the rejection read back", "observed": repr(k16[0][1])[:200]}))
        if f.k10:
            c, raw = f.k10[0]
            res.append(Result("C14/K-10 witness: delimited output ends its lines with CR LF although the CID declares another line delimiter", "bounded", FAILED, "native", finding="K-10", cases=len(f.k10), props=["C14"], detail=repr(raw)[:200],
                              replay={"verdict": "confirmed", "input": f.describe(c), "expected": "lines ended by the declared line delimiter", "observed": repr(raw)}))
        return res
    return NativeUnit("C14.files", "bounded sweep: writer bound to a path in the CID's encoding, unencodable rows leave no trace, the file read back through the validating reader", ["C14", "C12", "C13"], run, kind="bounded")


def unit_writer_sweep():
    def run(ctx):
        o = WriterOracle()
        limit = 10**9 if ctx.thorough else o.quick_cases
        return [sweep("C14/sweep/write then read back", itertools.islice(o.cases(ctx), limit), o.check, "bounded", o.bound, describe=o.describe, function="validio.Writer + rowio writers + validio.rows", unit="C14.sweep"),
                sweep("C14/sweep/uniqueness is judged on the values as they are written (fixed width: padded)", [c for n_ in (2, 3) for c in itertools.product(["ab", "ab ", "a", "a  ", "abc", ""], repeat=n_)], _writer_unique_on_what_is_written, "bounded",
                      "all sequences of 2-3 values over {ab, 'ab ', a, 'a  ', abc, ''} in a 3-wide IsUnique field", describe=lambda c: {"values": list(c)}, function="validio.Writer.write_row", unit="C14.sweep"),
                sweep("C14/sweep/a failing end-of-data check at close() still leaves the accepted rows in a closed file", ["delimited", "fixed"], _writer_close_with_failing_end_check, "bounded", "2 formats, 3 rows, DistinctCount failing at close",
                      describe=lambda c: {"format": c}, function="validio.Writer.close", unit="C14.sweep"),
                sweep("C14/sweep/header rows: written unvalidated, refused only when they do not fit a fixed layout", [(f_, h_) for f_ in ("delimited", "fixed") for h_ in (["id", "nm"], ["x", ""], ["ident", "nm"], ["id", "name"], ["id"], ["id", "nm", "x"], ["id", None], [1, 2], ["not a number", "!!"])],
                      _writer_header_rows, "bounded", "2 formats x 9 header rows (fitting, too long, too few / many items, items that are no strings)", describe=lambda c: {"format": c[0], "header row": c[1]}, function="validio.Writer.write_row", unit="C14.sweep", props=["C14", "C07", "C10"]),
                sweep("C14/sweep/items that are no strings are rejected as bad cells", ["delimited", "fixed"], _writer_non_string_items, "bounded", "2 formats x 5 rows with an int, None, float, bytes, list item",
                      describe=lambda c: {"format": c}, function="validio.Writer.write_row", unit="C14.sweep", props=["C14", "C10"]),
                sweep("C14/sweep/a writer created from the path of a CID writes what a writer created from the loaded Cid writes", ["delimited", "fixed"], _writer_from_cid_path, "bounded", "2 formats, 2 rows",
                      describe=lambda c: {"format": c}, function="validio.Writer.__init__", unit="C14.sweep", props=["C14", "C10"])]
    return NativeUnit("C14.sweep", "bounded sweep: Writer emits exactly the accepted rows, nothing for rejected ones, output validates again (incl. after an earlier read with the same CID)", ["C14", "C08"], run, kind="bounded")


# =====================================================================================================================
# module-level rows() / validate(): the reader is always closed (with-statement), also when abandoned; islice limit (C07 C08 C20)
# =====================================================================================================================
ITEMT = Abs("Item")


def m_new_reader(ex, st, info, args, kw):
    r = Ref("Reader"); st.heap[r.oid] = {}
    st.ghost["reader"] = r; st.ghost["reader_args"] = (list(args), dict(kw))
    yield st, r


def m_reader_rows(ex, st, recv, args, kw):
    def raise_fault(ex_, s):
        s.ghost["rows_raised"] = True
        for s2, e in raise_new(ex_, s, "DataError"): s2.ghost["rows_exc"] = e.exc; yield s2, e
    yield st, FallibleIter(st.ghost["items"], st.ghost["fail_at"], raise_fault)


def m_reader_close(ex, st, recv, args, kw):
    st.ghost["close_calls"] = st.ghost["close_calls"] + 1
    # Reader.rows is a generator function: its body - beginning with the reset of every check - runs only when the first item is
    # requested, so islice(rows, 0) reaches close() without a reset by rows(). Reader.close resets the checks itself in that case
    # (repair F-14; verified by the unit validio.Reader.close, which fails if that guarantee is removed).
    fail = fresh(BOOL, "end_check_fails")[0]
    for s2, b in ex.fork(st, fail):
        if b:
            for s3, e in raise_new(ex, s2, "CheckError"): s3.ghost["close_exc"] = e.exc; yield s3, e
        else: yield s2, None


def m_islice(ex, st, fn, args, kw):
    it, n = args[0], lift(unopt(args[1])).z
    seq = it.seq
    cut = UFL(seq.elem_ty, seq.at, z3.If(n < seq.length, n, seq.length))
    f = lift(it.fail_at).z
    st.ghost["never_started"] = (n <= 0)           # islice(it, 0) never calls next(it)
    yield st, FallibleIter(cut, Sym(INT, z3.If(z3.And(f >= 0, f < n), f, -1)), it.raise_fn)


def setup_module_rows(which):
    def setup(ex, st):
        items, c = fresh(UFList(ITEMT), "items"); st.pc.extend(c)
        import sys as _sys
        st.pc.append(items.length < _sys.maxsize)          # a data set has fewer than sys.maxsize rows (islice gets min(limit, sys.maxsize))
        vu = fresh(Opt(INT), "validate_until")[0]; so = sort_of(Opt(INT)); st.pc.append(z3.Or(so.is_none(vu.z), so.val(vu.z) >= 0))
        env = {"cid_or_path": Ref("Cid"), "data_stream_or_path": Ref("Stream"), "validate_until": vu}
        if which == "rows": env["on_error"] = fresh(STR, "on_error")[0]; st.pc.append(z3.Or(*[env["on_error"].z == m for m in ("raise", "yield", "continue")]))
        st.frames[-1].env.update(env)
        st.ghost.update({"items": items, "fail_at": fresh(INT, "fail_at")[0], "close_calls": 0, "rows_raised": False, "abandoned": False, "vu": vu, "env0": dict(env),
                         "out": Sym(SeqList(ITEMT), z3.Empty(sort_of(SeqList(ITEMT)))), "consumed": 0, "rows_exc": None, "close_exc": None})
        def hook(s, v): s.ghost["out"] = Sym(SeqList(ITEMT), z3.Concat(lift(s.ghost["out"]).z, z3.Unit(lift(v).z)))
        ex.yield_hook = hook
        ex.model_abandon = (which == "rows")
    return setup


def _reader_built_ok(which):
    def f(ex, st):
        a, kw = st.ghost.get("reader_args", (None, None)); e0 = st.ghost["env0"]
        if a is None: return Sym(BOOL, z3.BoolVal(False))
        if which == "rows": ok_ = len(a) == 4 and a[0] is e0["cid_or_path"] and a[1] is e0["data_stream_or_path"] and a[2] is e0["on_error"] and a[3] is e0["validate_until"]
        else: ok_ = len(a) == 2 and a[0] is e0["cid_or_path"] and a[1] is e0["data_stream_or_path"] and kw.get("validate_until") is e0["validate_until"] and "on_error" not in kw
        return Sym(BOOL, z3.BoolVal(bool(ok_)))
    return f


def sf_out_prefix(ex, st, k):
    out = lift(st.ghost["out"]).z; items = st.ghost["items"]; kk = lift(k).z; j = z3.Int("j!op")
    return Sym(BOOL, z3.And(z3.Length(out) == kk, z3.ForAll([j], z3.Implies(z3.And(0 <= j, j < kk), out[j] == items.at(j)))))
def sf_closed_once(ex, st): return Sym(BOOL, z3.BoolVal(st.ghost["close_calls"] == 1))
def sf_flag(name):
    return lambda ex, st: Sym(BOOL, z3.BoolVal(bool(st.ghost[name])))
def sf_exc_is(name):
    return lambda ex, st: Sym(BOOL, z3.BoolVal(st.ghost.get("__exc__") is not None and st.ghost.get("__exc__") == st.ghost.get(name)))


def module_rows_contract():
    return Contract("validio.rows", setup_module_rows("rows"),
        returns=[Clause("out_prefix(len(items))", "passes-on-everything-the-reader-produces-in-order", props=["C06", "C07"]),
                 Clause("closed_once() and not did_rows_raise()", "reader-closed-exactly-once-at-the-end", props=["C08", "C20", "C05"]),
                 Clause(_reader_built_ok("rows"), "reader-gets-cid-data-mode-and-limit-unchanged", props=["C06", "C07"])],
        raises={"DataError": [Clause("closed_once()", "reader-closed-exactly-once-also-when-a-row-error-or-end-check-stops-the-run", props=["C08", "C20", "C05"]),
                              Clause("implies(did_rows_raise(), out_prefix(fail_at))", "rows-before-the-error-were-passed-on", props=["C06"])],
                "GeneratorExit": [Clause("closed_once()", "abandoning-the-iteration-still-closes-the-reader-(end-checks-and-cleanup-run)", props=["C08", "C20"])]},
        loops={0: LoopSpec(invariants=["out_prefix(_i0)", "not did_rows_raise()"], havoc={"row": ITEMT}, ghost_havoc={"out": SeqList(ITEMT)})},
        expect=["return", "DataError", "GeneratorExit"], n_loops=1)


def module_validate_contract():
    def consumed_ok(ex, st):
        so = sort_of(Opt(INT)); vu = G(st, "vu"); n = st.ghost["items"].length; i = lift(st.frames[-1].env.get("_i0", 0)).z
        lim = z3.If(so.is_none(vu), n, z3.If(so.val(vu) < n, so.val(vu), n))
        return Sym(BOOL, i == lim)
    return Contract("validio.validate", setup_module_rows("validate"),
        returns=[Clause(consumed_ok, "consumes-exactly-min(limit,-data-rows)-rows-of-the-reader", props=["C07"]),
                 Clause("closed_once() and not did_rows_raise()", "reader-closed-exactly-once-at-the-end", props=["C08", "C20", "C05"]),
                 Clause(_reader_built_ok("validate"), "reader-gets-cid-data-and-limit-unchanged-in-raise-mode", props=["C07"])],
        raises={"DataError": [Clause("closed_once()", "reader-closed-exactly-once-also-on-error", props=["C08", "C20"]),
                              Clause(lambda ex, st: Sym(BOOL, z3.Implies(z3.BoolVal(bool(st.ghost["rows_raised"])),
                                        z3.Or(sort_of(Opt(INT)).is_none(G(st, "vu")), G(st, "fail_at") < sort_of(Opt(INT)).val(G(st, "vu"))))), "a-rejection-is-reported-only-within-the-first-N-data-rows", props=["C07"])]},
        loops={0: LoopSpec(invariants=["not did_rows_raise()"], havoc={"_": ITEMT})},
        expect=["return", "DataError"], n_loops=1)


def unit_module_rows_validate():
    def make(ctx):
        cal = {"class:Reader": m_new_reader, "ref:Reader.rows": m_reader_rows, "ref:Reader.close": m_reader_close, "builtin:itertools.islice": m_islice}
        sf = {"out_prefix": sf_out_prefix, "closed_once": sf_closed_once, "did_rows_raise": sf_flag("rows_raised")}
        A = ["Reader.rows / Reader.close are used through their contracts (verified units): rows() yields a finite sequence and may stop with a DataError; close() may raise a CheckError",
             "itertools.islice(it, n) delivers the first min(n, len) items and then stops without exhausting `it`",
             "abandonment is modelled as GeneratorExit raised at the yield (CPython semantics of generator.close())"]
        return [{"contract": module_rows_contract(), "callees": cal, "spec_functions": sf, "label": "rows()", "assumptions": A},
                {"contract": module_validate_contract(), "callees": cal, "spec_functions": sf, "label": "validate()", "assumptions": A}]
    return ProofUnit("validio.rows+validate", "module-level rows()/validate(): reader always closed exactly once (also on error / abandonment); validate() stops after N data rows", ["C07", "C08", "C20", "C06", "C05"], make, None)


# =====================================================================================================================
# Reader._raw_rows : format dispatch (C16 C17 C13 C12)
# =====================================================================================================================
def unit_raw_rows():
    def make(ctx):
        out = []
        for fmt in ("excel", "ods", "delimited", "fixed"):
            def setup(ex, st, fmt=fmt):
                df = Ref("DataFormat"); st.heap[df.oid] = {"_format": fmt, "_sheet": fresh(INT, "sheet")[0], "_encoding": fresh(STR, "encoding")[0], "_line_delimiter": fresh(Opt(STR), "ld")[0]}
                cid = Ref("Cid"); st.heap[cid.oid] = {"_data_format": df}
                src = Ref("Source"); self = Ref("Reader"); st.heap[self.oid] = {"_cid": cid, "_source_data_stream_or_path": src}
                st.frames[-1].env["self"] = self; st.ghost.update({"df": df, "src": src, "cid": cid, "called": None, "fnl": None})
            def rec(name):
                def m(ex, st, fn, args, kw):
                    st.ghost["called"] = (name, list(args)); r = Ref("Rows"); st.ghost["rows_obj"] = r; yield st, r
                return ModelContract(m)
            def m_fnl(ex, st, fn, args, kw):
                r = Ref("FNL"); st.ghost["fnl"] = (r, args[0]); yield st, r
            def dispatched(ex, st, fmt=fmt):
                c = st.ghost["called"]; df = st.heap[st.ghost["df"].oid]; src = st.ghost["src"]
                if c is None or st.ghost["__result__"] is not st.ghost.get("rows_obj"): return Sym(BOOL, z3.BoolVal(False))
                name, a = c
                if fmt == "excel": ok_ = name == "excel_rows" and len(a) == 2 and a[0] is src and a[1] is df["_sheet"]
                elif fmt == "ods": ok_ = name == "ods_rows" and len(a) == 2 and a[0] is src and a[1] is df["_sheet"]
                elif fmt == "delimited": ok_ = name == "delimited_rows" and len(a) == 2 and a[0] is src and a[1] is st.ghost["df"]
                else:
                    f = st.ghost["fnl"]
                    ok_ = name == "fixed_rows" and len(a) == 4 and a[0] is src and a[1] is df["_encoding"] and f is not None and a[2] is f[0] and f[1] is st.ghost["cid"] and a[3] is df["_line_delimiter"]
                return Sym(BOOL, z3.BoolVal(bool(ok_)))
            out.append({"contract": Contract("validio.Reader._raw_rows", setup, returns=[Clause(dispatched, "rows-come-from-the-reader-of-the-CID's-format-with-the-format's-sheet-/-encoding-/-widths-/-line-delimiter", props=["C16", "C17", "C13", "C12", "C15", "C14"])],
                                             raises={}, expect=["return"], n_loops=0, modifies=[]),
                        "callees": {"rowio.excel_rows": rec("excel_rows"), "rowio.ods_rows": rec("ods_rows"), "rowio.delimited_rows": rec("delimited_rows"), "rowio.fixed_rows": rec("fixed_rows"),
                                    "interface.field_names_and_lengths": ModelContract(m_fnl)}, "label": "format " + fmt})
        return out
    return ProofUnit("validio.Reader._raw_rows", "Reader._raw_rows: dispatch on the data format, passing the format's own settings", ["C16", "C17", "C13", "C12", "C15", "C14"], make, None)


# ---------------------------------------------------------------- Reader.__init__ / validate_rows, Writer.write_rows / close
def unit_reader_init():
    def mk(source_kind, cid_kind):
        def setup(ex, st):
            fields, c1 = fresh(UFList(FIELD), "fields"); st.pc.extend(c1)
            df = Ref("DataFormat"); st.heap[df.oid] = {"_format": fresh(STR, "fmt")[0], "_is_valid": True}
            cid = Ref("Cid"); st.heap[cid.oid] = {"_data_format": df, "_field_formats": fields}
            on_error = fresh(STR, "on_error")[0]; st.pc.append(z3.Or(on_error.z == "continue", on_error.z == "raise", on_error.z == "yield"))
            vu = fresh(Opt(INT), "validate_until")[0]; OI = sort_of(Opt(INT)); st.pc.append(z3.Or(OI.is_none(vu.z), OI.val(vu.z) >= 0))
            # precondition (from Location.__init__'s assert): a path / stream name is a non-empty string
            if source_kind == "path": src = fresh(STR, "source_path")[0]; st.pc.append(z3.Length(src.z) > 0)
            elif source_kind == "named": nm = fresh(STR, "stream_name")[0]; st.pc.append(z3.Length(nm.z) > 0); src = Ref("Stream"); st.heap[src.oid] = {"name": nm}
            else: src = Ref("Stream"); st.heap[src.oid] = {}
            cid_arg = cid if cid_kind == "cid" else fresh(STR, "cid_path")[0]
            self = Ref("Reader"); st.heap[self.oid] = {}
            st.frames[-1].env.update({"self": self, "cid_or_path": cid_arg, "source_data_stream_or_path": src, "on_error": on_error, "validate_until": vu})
            st.ghost.update({"this": self, "cid": cid, "cid_arg": cid_arg, "src": src, "on_error": on_error, "vu": vu, "fields": fields, "cid_read_from": None})
        def m_cid(ex, st, info, args, kw):
            # Cid(path): InterfaceError / OSError-free contract of Cid.read is in contracts/interface.py; here: the CID read from that path, or a refusal
            sb = st.copy(); yield from raise_new(ex, sb, "InterfaceError")
            st.ghost["cid_read_from"] = args[0]; yield st, st.ghost["cid"]
        def c_bound(ex, st):
            g = st.ghost; o = st.heap[g["this"].oid]; loc = o.get("_location"); lo = st.heap[loc.oid] if isinstance(loc, Ref) else {}
            static = (o.get("_cid") is g["cid"] and o.get("_source_data_stream_or_path") is g["src"] and o.get("_on_error") is g["on_error"] and o.get("_validate_until") is g["vu"]
                      and o.get("accepted_rows_count", 0) is None and o.get("rejected_rows_count", 0) is None and o.get("_is_closed") is False
                      and isinstance(loc, Ref) and loc.cls == "Location" and lo.get("_has_cell") is True
                      and (cid_kind == "cid" or g["cid_read_from"] is g["cid_arg"]))
            if not static: return Sym(BOOL, z3.BoolVal(False))
            fp = lo.get("file_path")
            if source_kind == "path": pz = z3.BoolVal(fp is g["src"])
            elif source_kind == "named": pz = z3.BoolVal(fp is st.heap[g["src"].oid]["name"])
            else: pz = z3.BoolVal(fp == "<io>")
            return Sym(BOOL, z3.And(pz, lift(o["_expected_item_count"]).z == g["fields"].length, lift(lo["_line"]).z == 0, lift(lo["_cell"]).z == 0))
        c = Contract("validio.Reader.__init__", setup,
                returns=[Clause(c_bound, "bound-to-the-given-cid-source-error-mode-and-validation-limit-with-a-fresh-location-at-the-first-row-and-one-expected-item-per-field", props=["C04", "C06", "C07", "C08"])],
                raises={"InterfaceError": [Clause(lambda ex, st: Sym(BOOL, z3.BoolVal(cid_kind == "path")), "only-a-CID-given-as-path-can-be-refused", props=["C09"])]},
                expect=["return"] + (["InterfaceError"] if cid_kind == "path" else []), raises_only_props=["C10"])
        return {"contract": c, "label": "source=%s cid=%s" % (source_kind, cid_kind), "callees": {"class:Cid": m_cid},
                "assumptions": ["Cid(path) is used through the contract of Cid.read (contracts/interface.py)", "a stream without a name attribute raises AttributeError on .name (Python semantics of the heap model)"]}
    def make(ctx): return [mk(s, c) for s in ("path", "named", "anonymous") for c in ("cid", "path")]
    return ProofUnit("validio.Reader.__init__", "Reader.__init__: binds cid / source / on_error / validate_until, fresh Location, counters unset, expected item count", ["C04", "C06", "C07", "C08", "C10"], make, None)


def unit_validate_rows():
    """C07: 'the validate-only API stops after N data rows' - Reader.validate_rows is that API for a Reader (the command line uses it)"""
    OI = sort_of(Opt(INT))
    def setup(ex, st):
        vu = fresh(Opt(INT), "validate_until")[0]; st.pc.append(z3.Or(OI.is_none(vu.z), OI.val(vu.z) >= 0))
        mode = fresh(STR, "on_error")[0]; st.pc.append(z3.Or(*[mode.z == m for m in ("raise", "yield", "continue")]))
        self = Ref("Reader"); st.heap[self.oid] = {"_validate_until": vu, "_on_error": mode, "accepted_rows_count": None, "rejected_rows_count": None}
        rows, c = fresh(UFList(STR), "rows"); st.pc.extend(c)
        import sys as _sys
        st.pc.append(rows.length < _sys.maxsize)          # a data set has fewer than sys.maxsize rows
        st.frames[-1].env.update({"self": self}); st.ghost.update({"this": self, "mode": mode, "rows": rows, "items": rows, "vu": vu, "rows_called": 0, "rows_failed": False, "fail_at": fresh(INT, "fail_at")[0], "mode_during": None})
    def m_rows(ex, st, recv, args, kw):
        st.ghost["rows_called"] = Sym(INT, G(st, "rows_called") + 1)
        st.ghost["mode_during"] = st.heap[recv.oid]["_on_error"]        # the error mode rows() runs in: every data row read shows up as an item unless it is 'continue'
        def raise_fn(ex_, s): 
            s.ghost["rows_failed"] = True
            yield from raise_new(ex_, s, "DataError")
        yield st, FallibleIter(st.ghost["rows"], st.ghost["fail_at"], raise_fn)
    def counts_every_row(ex, st):
        m = st.ghost["mode_during"]
        return Sym(BOOL, z3.BoolVal(False) if m is None else lift(m).z != z3.StringVal("continue"))
    def restored(ex, st):
        o = st.heap[st.ghost["this"].oid]
        return Sym(BOOL, lift(o["_on_error"]).z == G(st, "mode"))
    def counters_set(ex, st):
        o = st.heap[st.ghost["this"].oid]
        return Sym(BOOL, z3.BoolVal(o["accepted_rows_count"] is not None and o["rejected_rows_count"] is not None))
    def consumed_ok(ex, st):
        vu = G(st, "vu"); n = st.ghost["rows"].length; i = lift(st.frames[-1].env.get("_i0", 0)).z
        return Sym(BOOL, i == z3.If(OI.is_none(vu), n, z3.If(OI.val(vu) < n, OI.val(vu), n)))
    def within(ex, st):
        vu = G(st, "vu")
        return Sym(BOOL, z3.Or(OI.is_none(vu), G(st, "fail_at") < OI.val(vu)))
    def make(ctx):
        c = Contract("validio.Reader.validate_rows", setup,
                returns=[Clause("rows_called == 1 and not rows_failed", "asks-rows()-exactly-once", props=["C06", "C07"]),
                         Clause(consumed_ok, "consumes-exactly-min(limit,-data-rows)-rows:-without-a-limit-everything-with-a-limit-N-it-stops-after-N-data-rows", props=["C07", "C18"]),
                         Clause(counts_every_row, "rows()-runs-in-a-mode-in-which-every-data-row-read-is-an-item-(a-rejected-row-counts-towards-N-also-under-'continue')", props=["C07", "C06"]),
                         Clause(restored, "the-reader's-error-mode-is-what-it-was", props=["C06"]),
                         Clause(counters_set, "the-row-counters-are-numbers-afterwards-(also-when-no-row-was-read)", props=["C06", "C07", "C18"])],
                raises={"DataError": [Clause("rows_failed", "an-error-only-if-rows()-raised-it", props=["C06", "C10"]),
                                      Clause(within, "a-problem-is-reported-only-within-the-first-N-data-rows", props=["C07", "C18"]),
                                      Clause(restored, "the-reader's-error-mode-is-what-it-was-also-after-an-error", props=["C06"])]},
                loops={0: LoopSpec(invariants=["rows_called == 1", "not rows_failed"], havoc={"_": STR})},
                expect=["return", "DataError"], n_loops=1, raises_only_props=["C10"])
        return {"contract": c, "callees": {"ref:Reader.rows": m_rows, "builtin:itertools.islice": m_islice},
                "assumptions": ["Reader.rows is used through its verified contract (validio.Reader.rows units): a finite sequence that may raise a DataError at any position",
                                "itertools.islice(it, n) delivers the first min(n, len) items and then stops without exhausting `it`"]}
    return ProofUnit("validio.Reader.validate_rows", "Reader.validate_rows: consumes rows() once, up to the validation limit (N data rows); errors are those of rows() within that part", ["C06", "C07", "C10", "C18"], make, None)


def unit_writer_write_rows():
    def setup(ex, st):
        self = Ref("Writer"); st.heap[self.oid] = {}
        rows, c = fresh(UFList(INT), "rows"); st.pc.extend(c)       # rows abstracted to their identities
        st.frames[-1].env.update({"self": self, "rows_to_write": rows}); st.ghost.update({"rows": rows, "written": 0, "failed_at": -1})
    def m_write_row(ex, st, recv, args, kw):
        i = lift(st.frames[-1].env["_i0"]).z
        ex.obligations.append(Obligation("write_row-receives-the-rows-in-order-each-once", st.pc, z3.And(lift(args[0]).z == st.ghost["rows"].at(i), G(st, "written") == i), "protocol", props=["C14"]))
        sb = st.copy(); sb.ghost["failed_at"] = Sym(INT, i)
        yield from raise_new(ex, sb, "DataError")
        st.ghost["written"] = Sym(INT, G(st, "written") + 1); yield st, None
    def make(ctx):
        c = Contract("validio.Writer.write_rows", setup,
                returns=[Clause("written == len(rows)", "every-row-is-passed-to-write_row", props=["C14"])],
                raises={"DataError": [Clause("failed_at >= 0 and written == failed_at", "stops-at-the-first-rejected-row-with-all-earlier-rows-written", props=["C14"])]},
                loops={0: LoopSpec(invariants=["written == _i0", "failed_at == -1"], havoc={"row_to_write": INT}, ghost_havoc={"written": INT})},
                expect=["return", "DataError"], n_loops=1, raises_only_props=["C10"])
        return {"contract": c, "callees": {"ref:Writer.write_row": m_write_row}, "assumptions": ["Writer.write_row is used through its verified contract (validio.Writer.write_row)"]}
    return ProofUnit("validio.Writer.write_rows", "Writer.write_rows: rows go to write_row in order, each once; the first rejection stops the loop", ["C14", "C10"], make, None)


def unit_writer_close():
    def mk(has_writer):
        def setup(ex, st):
            w = Ref("DelimitedRowWriter") if has_writer else None
            if w is not None: st.heap[w.oid] = {}
            self = Ref("Writer"); st.heap[self.oid] = {"_delegated_writer": w}
            st.frames[-1].env.update({"self": self}); st.ghost.update({"this": self, "base_closed": 0, "writer_closed": 0, "base_failed": False, "w": w})
        def m_base_close(ex, st, fn, args, kw):
            st.ghost["base_closed"] = Sym(INT, G(st, "base_closed") + 1)
            ex.obligations.append(Obligation("end-checks-run-before-the-target-is-closed", st.pc, G(st, "writer_closed") == 0, "protocol", props=["C14", "C20"]))
            sb = st.copy(); sb.ghost["base_failed"] = True; yield from raise_new(ex, sb, "CheckError")
            yield st, None
        def m_writer_close(ex, st, recv, args, kw):
            st.ghost["writer_closed"] = Sym(INT, G(st, "writer_closed") + 1)
            ex.obligations.append(Obligation("closes-the-delegated-writer-it-holds", st.pc, z3.BoolVal(recv is st.ghost["w"]), "protocol", props=["C14"]))
            yield st, None
        n = 1 if has_writer else 0
        c = Contract("validio.Writer.close", setup,
                returns=[Clause("base_closed == 1 and writer_closed == %d and this._delegated_writer is None and not base_failed" % n, "end-checks-once-then-the-delegated-writer-closed-once-and-dropped", props=["C14", "C20"])],
                raises={"CheckError": [Clause("base_failed and writer_closed == %d and this._delegated_writer is None" % n, "a-failed-end-check-still-closes-the-delegated-writer", props=["C14", "C20"])]},
                expect=["return", "CheckError"], raises_only_props=["C10"])
        return {"contract": c, "label": "with delegated writer" if has_writer else "already closed", "callees": {"validio.BaseValidator.close": ModelContract(m_base_close), "ref:BaseValidator.close": m_base_close_ref(m_base_close),
                                                    "ref:DelimitedRowWriter.close": m_writer_close},
                "assumptions": ["BaseValidator.close is used through its verified contract (validio.BaseValidator.close); the row writer's close() does not raise"]}
    def make(ctx): return [mk(True), mk(False)]
    return ProofUnit("validio.Writer.close", "Writer.close: end checks first, delegated writer closed exactly once even when an end check fails", ["C14", "C20", "C10"], make, None)


def m_base_close_ref(m):
    def f(ex, st, recv, args, kw): yield from m(ex, st, None, args, kw)
    return f


# ---------------------------------------------------------------- C04 end to end (bounded): verdict, row number, column and field named
def unit_c04_sweep():
    LINES = ["1,ab", "x,ab", "", "7", "1,ab,c", "2,abcd", "3,", ",ab", "4,q"]
    def run(ctx):
        from cutplace import interface, validio, errors
        def cid(header):
            return interface.create_cid_from_string("d,format,delimited\nd,header,%d\nf,id,,,1...3,Integer\nf,name,,x,...3\nc,distinct ids,IsUnique,id\n" % header)
        def cases():
            for header in (0, 1):
                for n in (1, 2, 3) if not ctx.thorough else (1, 2, 3, 4):
                    for ls in itertools.product(range(len(LINES)), repeat=n):
                        if n == 3 and (sum(ls) % 3) and not ctx.thorough: continue
                        yield (header, [LINES[i] for i in ls])
        def expect(header, lines):
            """per data row: None (accepted) or (row number 1-based incl. header, column 1-based, field name or None for a count / check problem)"""
            out = []; seen = {}
            for i, line in enumerate(lines):
                if i < header: continue
                items = [] if line == "" else line.split(",")
                if len(items) != 2: out.append((i + 1, min(len(items), 2) + 1 if len(items) < 2 else 3, None)); continue
                try: v = int(items[0]); ok0 = items[0] != "" and len(items[0]) <= 3
                except ValueError: ok0 = False
                if not ok0: out.append((i + 1, 1, "id")); continue
                if len(items[1]) > 3: out.append((i + 1, 2, "name")); continue
                if items[0] in seen: out.append((i + 1, None, None)); continue        # a row check failed: only the row is pinned down by the statement
                seen[items[0]] = i; out.append(None)
            return out
        def check(c):
            header, lines = c
            text = "".join(l + "\n" for l in lines)
            try: got = list(validio.rows(cid(header), io.StringIO(text), on_error="yield"))
            except Exception as e: return {"expected": "one item per data row", "observed": repr(e)}
            exp = expect(header, lines)
            if len(got) != len(exp): return {"expected": "%d items (one per data row, blank lines included)" % len(exp), "observed": "%d items: %r" % (len(got), got)}
            for g, e in zip(got, exp):
                if e is None:
                    if isinstance(g, Exception): return {"expected": "row accepted", "observed": str(g)}
                    continue
                if not isinstance(g, errors.DataError): return {"expected": "a data error at row %d" % e[0], "observed": repr(g)}
                loc = g.location
                if loc is None or loc.line + 1 != e[0]: return {"expected": "error located at row %d (1-based, header rows counted)" % e[0], "observed": str(g)}
                if e[1] is not None and e[2] is not None and loc.cell + 1 != e[1]: return {"expected": "error located at column %d" % e[1], "observed": str(g)}
                if e[2] is not None and e[2] not in str(g): return {"expected": "message naming %r" % e[2], "observed": str(g)}
                if "<io>" not in str(loc): return {"expected": "location naming the input", "observed": str(loc)}
            return None
        return [sweep("C04/sweep/verdict, row number, column and culprit per row through validio.rows", cases(), check, "bounded",
                      "delimited CID (Integer id 1...3 chars, Text name <= 3, IsUnique id) x header 0-1 x all data texts of 1-3 lines over 9 line kinds (accepted, bad field 1 / 2, blank line, 1 or 3 items, empty cells, duplicate)",
                      describe=lambda c: {"header": c[0], "lines": c[1]}, function="validio.rows", unit="C04.sweep")]
    return NativeUnit("C04.sweep", "bounded end-to-end sweep: per-row verdicts and error locations (row incl. header rows, first offending column, culprit named)", ["C04"], run, kind="bounded")


# ---------------------------------------------------------------- Reader.close (F-14): a reader whose rows() was never started resets the checks itself
def _retired_unit_reader_close():   # Reader.close no longer exists: its guard moved into BaseValidator.close (contract: validio.BaseValidator.close)
    def setup(ex, st):
        m = fresh(INT, "m")[0]; st.pc.append(m.z >= 0)
        checks, c2 = fresh(UFList(CHECK), "checks"); st.pc.extend(c2); st.pc.append(checks.length == m.z)
        i = z3.Int("i"); cio = ex.absfun_s("check_index_of", [sort_of(CHECK)], z3.IntSort())
        st.pc.append(z3.ForAll([i], z3.Implies(z3.And(i >= 0, i < m.z), cio(checks.at(i)) == i)))
        closed0 = fresh(BOOL, "closed0")[0]; started0 = fresh(BOOL, "rows_started0")[0]
        cid = Ref("Cid"); st.heap[cid.oid] = {"_check_name_to_check_map": UFMap(STR, CHECK, None, values=checks)}
        self = Ref("Reader"); st.heap[self.oid] = {"_cid": cid, "_is_closed": closed0, "_has_reset_checks": started0}
        st.frames[-1].env.update({"self": self})
        st.ghost.update({"this": self, "m": m, "resets_done": 0, "closed0": closed0, "started0": started0, "base_closed": 0})
    def m_base_close(ex, st, fn, args, kw):
        ex.obligations.append(Obligation("the-end-of-data-verdicts-run-on-checks-reset-for-this-run:-rows()-was-started-or-every-check-has-just-been-reset", st.pc,
                                         z3.Or(G(st, "closed0"), G(st, "started0"), G(st, "resets_done") == G(st, "m")), "protocol", props=["C08", "C05", "C20"]))
        st.ghost["base_closed"] = Sym(INT, G(st, "base_closed") + 1)
        sb = st.copy(); yield from raise_new(ex, sb, "CheckError")
        yield st, None
    def make(ctx):
        c = Contract("validio.Reader.close", setup,
                returns=[Clause("base_closed == 1", "the-validator's-close-(end-verdicts-cleanup)-runs-exactly-once", props=["C08", "C20", "C05"]),
                         Clause("resets_done == (m if (not closed0 and not started0) else 0)", "checks-are-reset-here-only-for-an-open-reader-whose-rows()-never-started-each-once-in-order", props=["C08", "C20"])],
                raises={"CheckError": [Clause("base_closed == 1", "a-failing-end-verdict-comes-from-the-validator's-close", props=["C08"])]},
                loops={0: LoopSpec(invariants=["resets_done == _i0"], havoc={"check": CHECK}, ghost_havoc={"resets_done": INT}, match="self.cid.check_map.values()")},
                expect=["return", "CheckError"], raises_only_props=["C08", "C10"])
        return {"contract": c, "callees": {"abs:Check.reset": AbsContract(m_reset), "validio.BaseValidator.close": ModelContract(m_base_close), "ref:BaseValidator.close": m_base_close_ref(m_base_close)},
                "assumptions": ["BaseValidator.close is used through its verified contract; reset() of a check is abstract and protocol-monitored",
                                "Reader.rows sets _has_reset_checks right after resetting every check (verified: the reset-first obligations of validio.Reader.rows)"]}
    return ProofUnit("validio.Reader.close", "Reader.close: a reader whose rows() generator never started resets every check before the end-of-data verdicts (F-14)", ["C08", "C05", "C20", "C10"], make, None)


# ---------------------------------------------------------------- BaseValidator._reset_checks: every check once, in order; the run counts as begun
def unit_reset_checks():
    def setup(ex, st):
        m = fresh(INT, "m")[0]; st.pc.append(m.z >= 0)
        checks, c2 = fresh(UFList(CHECK), "checks"); st.pc.extend(c2); st.pc.append(checks.length == m.z)
        i = z3.Int("i"); cio = ex.absfun_s("check_index_of", [sort_of(CHECK)], z3.IntSort())
        st.pc.append(z3.ForAll([i], z3.Implies(z3.And(i >= 0, i < m.z), cio(checks.at(i)) == i)))
        cid = Ref("Cid"); st.heap[cid.oid] = {"_check_name_to_check_map": UFMap(STR, CHECK, None, values=checks)}
        self = Ref("Reader"); st.heap[self.oid] = {"_cid": cid, "_has_reset_checks": fresh(BOOL, "flag0")[0]}
        st.frames[-1].env.update({"self": self}); st.ghost.update({"this": self, "m": m, "resets_done": 0})
    def make(ctx):
        c = Contract("validio.BaseValidator._reset_checks", setup,
                returns=[Clause("resets_done == m", "every-check-of-the-cid-is-reset-exactly-once-in-declaration-order", props=["C08", "C05", "C20"]),
                         Clause("this._has_reset_checks == True", "the-run-counts-as-begun-afterwards", props=["C08", "C20"])],
                raises={}, loops={0: LoopSpec(invariants=["resets_done == _i0"], havoc={"check": CHECK}, ghost_havoc={"resets_done": INT}, match="self.cid.check_map.values()")},
                expect=["return"], n_loops=1, modifies=["Reader._has_reset_checks"])
        return {"contract": c, "callees": {"abs:Check.reset": AbsContract(m_reset)}, "assumptions": ["reset() of a check is abstract and protocol-monitored (it does not raise)"]}
    return ProofUnit("validio.BaseValidator._reset_checks", "_reset_checks: every check reset once in order, the run marked as begun (used by validate_row for runs that feed their rows themselves)", ["C08", "C05", "C20"], make, None)


# ---------------------------------------------------------------- BaseValidator.__exit__ : close() always; an error already under way is not replaced
def unit_validator_exit():
    def mk(body_failed):
        def setup(ex, st):
            self = Ref("Reader"); st.heap[self.oid] = {}
            exc_type = Opaque() if body_failed else None
            st.frames[-1].env.update({"self": self, "exc_type": exc_type, "exc_val": Opaque() if body_failed else None, "exc_tb": None})
            st.ghost.update({"this": self, "closed": 0, "close_failed": False})
        def m_close(ex, st, recv, args, kw):
            st.ghost["closed"] = Sym(INT, G(st, "closed") + 1)
            sb = st.copy(); sb.ghost["close_failed"] = True; yield from raise_new(ex, sb, "CheckError")
            yield st, None
        c = Contract("validio.BaseValidator.__exit__", setup,
                returns=[Clause("closed == 1", "close()-(end-verdicts-and-cleanup)-runs-exactly-once-when-a-with-block-ends", props=["C20", "C08"]),
                         Clause(lambda ex, st: Sym(BOOL, z3.BoolVal((not st.ghost["close_failed"]) or body_failed)), "a-failing-end-verdict-is-swallowed-only-when-the-block-already-ends-with-an-error-(which-then-propagates:-the-result-is-not-truthy)", props=["C06", "C18", "C20"]),
                         Clause(lambda ex, st: Sym(BOOL, z3.BoolVal(not st.ghost["__result__"])), "never-suppresses-the-error-of-the-block", props=["C06", "C18", "C10"])],
                raises={"CheckError": [Clause(lambda ex, st: Sym(BOOL, z3.BoolVal(bool(st.ghost["close_failed"]) and not body_failed)), "a-failing-end-verdict-is-raised-when-the-block-ended-normally", props=["C05", "C20"])]},
                expect=["return"] + ([] if body_failed else ["CheckError"]), raises_only_props=["C10"])
        return {"contract": c, "label": "block ended with an error" if body_failed else "block ended normally", "callees": {"ref:Reader.close": m_close},
                "assumptions": ["close() of the concrete validator is used through its verified contract (it may raise a CheckError)"]}
    def make(ctx): return [mk(False), mk(True)]
    return ProofUnit("validio.BaseValidator.__exit__", "with-statement exit: close() once; the error of the block is never replaced by a CheckError of the end verdicts (F-18)", ["C20", "C06", "C18", "C08", "C05", "C10"], make, None)
