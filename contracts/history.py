"""C08: bounded history exploration on one CID object (the deductive part is the reset-first obligations of Reader.rows / Writer.__init__ and the reset() contracts)."""
import io, itertools
from vf import findings
from vf.unit import NativeUnit, sweep
from vf.model import *

CID_TEXT = "d,format,delimited\nd,allowed characters,32...121\nf,id,,,,Integer\nf,kind\nc,u,IsUnique,id\nc,k,DistinctCount,kind < 3\n"
FIXED_CID_TEXT = "d,format,fixed\nd,line delimiter,lf\nd,allowed characters,32...121\nf,id,,,1,Integer\nf,kind,,,1\nc,u,IsUnique,id\nc,k,DistinctCount,kind < 3\n"
CLEAN = "1,a\n2,b\n"; DUP = "1,a\n1,b\n"; MANY = "1,a\n2,b\n3,c\n"        # MANY fails the distinct count at the end
BADCHAR = "7,z\n"                                                          # 'z' (122) is not among the allowed characters: refused in every run, however often it has been looked at before
OTHER = "5,x\n6,y\n"                                                        # fine on its own; together with what CLEAN leaves behind it would exceed the distinct count
OPS = ["read_clean", "read_dup", "read_many", "abandon1", "abandon2", "read_noclose", "write", "write_close", "write_dup", "two_readers", "validate_0", "validate_1", "reader_unused", "read_other", "write_nothing", "rows_fed_directly", "nothing_fed", "read_badchar"]


def run_op(cid, op):
    """outcome of one run as a comparable value"""
    from cutplace import validio, errors
    fixed = cid.data_format.format == "fixed"
    def T(text): return text.replace(",", "") if fixed else text
    def outcome(f):
        try: return ("ok", f())
        except errors.DataError as e: return ("DataError", type(e).__name__, str(e.location), e.message[:40])
    if op in ("read_clean", "read_dup", "read_many", "read_other", "read_badchar"):
        text = {"read_clean": CLEAN, "read_dup": DUP, "read_many": MANY, "read_other": OTHER, "read_badchar": BADCHAR}[op]
        return outcome(lambda: [r for r in validio.rows(cid, io.StringIO(T(text)))])
    if op in ("abandon1", "abandon2"):
        def f():
            g = validio.rows(cid, io.StringIO(T(MANY))); got = [next(g) for _ in range(1 if op == "abandon1" else 2)]; g.close(); return got
        return outcome(f)
    if op in ("validate_0", "validate_1"):         # validate-only API with a validation limit (0: nothing is validated, the end-of-data checks see no row)
        def f(): validio.validate(cid, io.StringIO(T(CLEAN)), validate_until=int(op[-1])); return "passed"
        return outcome(f)
    if op == "reader_unused":                      # a reader that is opened and closed without reading a row
        def f():
            with validio.Reader(cid, io.StringIO(T(CLEAN))): pass
            return "closed"
        return outcome(f)
    if op == "two_readers":
        def f():
            r1 = validio.Reader(cid, io.StringIO(T(CLEAN))); r2 = validio.Reader(cid, io.StringIO(T(CLEAN)))       # both created before either runs
            a = [x for x in r1.rows()]; r1.close(); b = [x for x in r2.rows()]; r2.close(); return (a, b)
        return outcome(f)
    if op == "read_noclose":
        def f():
            r = validio.Reader(cid, io.StringIO(T(CLEAN))); return [x for x in r.rows()]      # never closed
        return outcome(f)
    if op == "rows_fed_directly":                  # a run that feeds its rows to validate_row() itself (the documented way to validate rows that come from somewhere else) and is then closed
        def f():
            r = validio.Reader(cid, io.StringIO("")); res = []
            for row in (["1", "a"], ["2", "b"], ["2", "c"], ["3", "d"]):
                try: r.validate_row([x for x in row]); res.append("ok")
                except errors.DataError as e: res.append("rejected:" + e.message[:30])
            try: r.close(); res.append("closed")
            except errors.DataError as e: res.append("end:" + e.message[:30])
            return res
        return outcome(f)
    if op == "nothing_fed":                        # a validator of one's own (BaseValidator, rows fed by hand) that gets no row at all and is closed
        def f():
            v = validio.BaseValidator(cid); v._location = errors.Location("<io>", has_cell=True)
            v.close(); return "closed"
        return outcome(f)
    if op == "write_nothing":                      # a writer that is closed without having written a row: the end-of-data checks see an empty data set
        def f():
            out = io.StringIO(); w = validio.Writer(cid, out); w.close(); return out.getvalue()
        return outcome(f)
    if op in ("write", "write_close", "write_dup"):
        def f():
            out = io.StringIO(); w = validio.Writer(cid, out); res = []
            for row in ([["1", "a"], ["2", "b"]] if op != "write_dup" else [["1", "a"], ["1", "b"]]):
                try: w.write_row(row); res.append("w")
                except errors.DataError as e: res.append("rejected:" + e.message[:30])
            if op != "write": w.close()
            return (res, out.getvalue())
        return outcome(f)
    raise ValueError(op)


def unit_history_sweep():
    def run(ctx):
        from cutplace import interface
        fresh_outcome = {(t, op): run_op(interface.create_cid_from_string(t), op) for op in OPS for t in (CID_TEXT, FIXED_CID_TEXT)}
        # the comparison below is between two runs of the same code; a few outcomes on a fresh CID are pinned as well, so that a change that breaks a run everywhere does not go unnoticed
        # (rows fed directly: kinds a, b, d of the three accepted rows, so 'kind < 3' fails at the end)
        PINNED = {"rows_fed_directly": ("ok", ["ok", "ok", "rejected:values for ['id'] must be uniq", "ok", "end:distinct count is 3 but check "]), "nothing_fed": ("ok", "closed"), "read_clean": ("ok", [["1", "a"], ["2", "b"]]),
                  "read_badchar": ("DataError", "FieldValueError", "<io> (R1C2)", "cannot accept field 'kind': character 'z")}
        def pin_check(op):
            got = fresh_outcome[(CID_TEXT, op)]
            return None if got == PINNED[op] else {"expected": repr(PINNED[op]), "observed": repr(got)}
        pinned = sweep("C08/history/outcomes of single runs on a fresh CID", sorted(PINNED), pin_check, "bounded", "4 operations with their expected outcome (a character outside the allowed characters is refused at its cell; rows fed directly: the duplicate id is rejected, every other row accepted, the end-of-data check sees the three kinds of the accepted rows)",
                       describe=lambda o: {"operation": o}, function="validio on a fresh Cid", unit="C08.history", props=["C08", "C05", "C20"])
        def cases():
            for n in (1, 2):
                for seq in itertools.product(OPS, repeat=n): yield ("FIXED",) + seq
            for n in (1, 2, 3):
                yield from itertools.product(OPS, repeat=n)
            if ctx.thorough:
                yield from itertools.product(OPS, repeat=4)
                import random
                rng = random.Random(ctx.seed)
                for _ in range(2000): yield tuple(rng.choice(OPS) for _ in range(rng.randint(5, 9)))
            else:
                k = 0
                for seq in itertools.product(OPS, repeat=4):
                    k += 1
                    if k % 9 == 0: yield seq
        def check(seq):
            text = CID_TEXT
            if seq and seq[0] == "FIXED": text = FIXED_CID_TEXT; seq = seq[1:]
            cid = interface.create_cid_from_string(text)
            for i, op in enumerate(seq):
                got = run_op(cid, op)
                if got != fresh_outcome[(text, op)]:
                    return {"expected": "run %d (%s) behaves as on a freshly loaded CID: %r" % (i + 1, op, fresh_outcome[(text, op)]), "observed": repr(got)}
            return None
        # runs that overlap in time on one CID object (recorded finding K-11: the state of the checks lives in the Cid, not in the reader / writer)
        def overlap(kind):
            from cutplace import validio, errors
            cid = interface.create_cid_from_string(CID_TEXT)
            if kind == "late_close":        # run A reads everything, run B reads and closes, then A is closed: A's end-of-data verdict has to be A's
                a = validio.Reader(cid, io.StringIO(MANY)); rows_a = list(a.rows())
                list(validio.rows(cid, io.StringIO(CLEAN)))
                try: a.close(); got = ("ok", rows_a)
                except errors.DataError as e: got = ("DataError", type(e).__name__, str(e.location), e.message[:40])
                return got, fresh_outcome[(CID_TEXT, "read_many")]
            if kind == "copy_loop":         # for row in rows(cid, source): writer.write_row(row) - reader and writer bound to the same Cid
                out = io.StringIO(); res = []
                with validio.Writer(cid, out) as w:
                    for row in validio.rows(cid, io.StringIO(CLEAN)):
                        try: w.write_row(row); res.append("w")
                        except errors.DataError as e: res.append("rejected:" + e.message[:30])
                return (res, out.getvalue()), (["w", "w"], "1,a\r\n2,b\r\n")
            if kind == "two_writers":       # the second writer refuses a key only the first one wrote
                w1 = validio.Writer(cid, io.StringIO()); w2 = validio.Writer(cid, io.StringIO()); res = []
                for w in (w1, w2):
                    try: w.write_row(["1", "a"]); res.append("w")
                    except errors.DataError as e: res.append("rejected")
                return res, ["w", "w"]
        # a reader / writer that is merely *constructed* before another run and used after that run has finished: no row operation of one run lies inside the other
        def early(kind):
            from cutplace import validio, errors
            def run(cid, other_first):
                out = io.StringIO()
                v = validio.Writer(cid, out) if kind.startswith("writer") else validio.Reader(cid, io.StringIO(CLEAN))
                if other_first: list(validio.rows(cid, io.StringIO(CLEAN if kind.endswith("same") else MANY.replace("3,c", "3,b"))))
                res = []
                try:
                    if kind.startswith("writer"):
                        for row in ([] if kind == "writer_unused" else [["1", "a"], ["2", "b"]]):
                            try: v.write_row(row); res.append("w")
                            except errors.DataError as e: res.append("rejected:" + e.message[:30])
                    else: res = [r for r in v.rows()]
                    v.close(); res.append("closed")
                except errors.DataError as e: res.append("end:" + e.message[:30])
                return res, out.getvalue()
            return run(interface.create_cid_from_string(CID_TEXT), True), run(interface.create_cid_from_string(CID_TEXT), False)
        def early_check(kind):
            got, want = early(kind)
            return None if got == want else {"expected": "as without the other run: %r" % (want,), "observed": repr(got)}
        extra0 = [sweep("C08/history/a reader or writer constructed before another run and used after it", ["writer_same", "writer_other", "writer_unused", "reader_same", "reader_other"], early_check, "bounded",
                        "writer / reader created, then a complete other run on the same Cid (same keys / other keys), then the writer writes (or is closed unused) / the reader reads", describe=lambda k: {"shape": k},
                        function="validio.Writer.__init__ / Reader on one Cid", unit="C08.history", props=["C08", "C05", "C14"])]
        known11 = findings.is_known("K-11", "C08"); k11 = []
        def overlap_check(kind):
            got, want = overlap(kind)
            if got == want: return None
            if known11: k11.append((kind, got, want)); return None
            return {"expected": "as on a CID of its own: %r" % (want,), "observed": repr(got)}
        extra = [sweep("C08/history/runs that overlap in time on one CID object", ["late_close", "copy_loop", "two_writers"], overlap_check, "bounded",
                       "3 overlapping shapes: a reader closed after another run, the copy loop (reader and writer on one Cid), two writers" + (" (recorded finding K-11)" if known11 else ""),
                       describe=lambda k: {"shape": k}, function="validio.Reader / Writer on one Cid", unit="C08.history", props=["C08", "C05", "C14"])]
        if k11:
            kind, got, want = k11[0]
            extra.append(Result("C08/K-11 witness: runs overlapping on one CID object share the state of its checks (%s)" % ", ".join(k[0] for k in k11), "bounded", FAILED, "native", finding="K-11", cases=len(k11), props=["C08", "C05", "C14"],
                                detail=repr(got)[:300], replay={"verdict": "confirmed", "input": {"shape": kind}, "expected": repr(want), "observed": repr(got)}))
        return extra0 + extra + [pinned] + [sweep("C08/history/every run equals the same run on a fresh CID", cases(), check, "bounded",
                      "all sequences of 1-3 operations and every 9th sequence of 4 (all of them + 2000 random sequences of 5-9 in thorough) over %s on one CID object with IsUnique and DistinctCount checks (delimited; sequences of 1-2 also on a fixed-format CID)" % OPS,
                      describe=lambda s: {"operations": list(s)}, function="validio.rows / Reader / Writer on one Cid", unit="C08.history")]
    return NativeUnit("C08.history", "bounded exploration of operation histories on one CID object", ["C08"], run, kind="bounded")
