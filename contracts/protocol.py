"""C20: bounded stand-in with real recording plug-in classes registered in the harness process (class-name resolution goes through
__subclasses__ reflection, which is outside the contract subset) and one plug-in folder import."""
import io, itertools, os
from vf.unit import NativeUnit, sweep
from vf.model import *

LOG = []
_registered = {}


def register():
    """recording field format and check classes; created once per process (subclass registration is global)"""
    if _registered: return _registered
    from cutplace import fields, checks, errors
    class RecordingFieldFormat(fields.AbstractFieldFormat):
        def __init__(self, field_name, is_allowed_to_be_empty, length, rule, data_format):
            super().__init__(field_name, is_allowed_to_be_empty, length, rule, data_format, empty_value="")
        def validated_value(self, value):
            LOG.append(("value", self.field_name, value))
            if value.startswith("bad"): raise errors.FieldValueError("recorded rejection")
            return value
    class RecordingCheck(checks.AbstractCheck):
        def __init__(self, description, rule, available_field_names, location=None):
            super().__init__(description, rule, available_field_names, location)
        def reset(self): LOG.append(("reset", self.description))
        def check_row(self, field_name_to_value_map, location):
            LOG.append(("row", self.description, tuple(field_name_to_value_map.values())))
            if self.rule == "veto" and "veto" in field_name_to_value_map.values(): raise errors.CheckError("recorded veto", location)
        def check_at_end(self, location):
            LOG.append(("end", self.description))
            if self.rule == "fail": raise errors.CheckError("recorded end failure", location)
        def cleanup(self): LOG.append(("cleanup", self.description))
    _registered.update(field=RecordingFieldFormat, check=RecordingCheck)
    return _registered


def predicted(fmt, fields, checks, rows, header, limit, mode, writer=False):
    """the call sequence the documented protocol predicts; fields: (name, may_be_empty, length, allowed) ; checks: (name, rule)"""
    seq = [("reset", c[0]) for c in checks]
    stop = False
    for k, row in enumerate(rows, 1):
        if k <= header: continue
        if limit is not None and k > limit: continue
        rejected = len(row) != len(fields)
        if not rejected:
            for (name, may_empty, length, allowed), cell in zip(fields, row):
                eff = cell.strip() if fmt == "fixed" else cell
                if allowed is not None and any(ch not in allowed for ch in cell): rejected = True; break
                if eff == "":
                    if not may_empty: rejected = True; break
                    continue
                if fmt == "fixed":
                    if len(cell) > length: rejected = True; break
                elif length is not None and not (length[0] <= len(cell) <= length[1]): rejected = True; break
                seq.append(("value", name, eff))
                if eff.startswith("bad"): rejected = True; break
        if not rejected:
            for cname, rule in checks:
                seq.append(("row", cname, tuple(row)))
                if rule == "veto" and "veto" in row: rejected = True; break
        if rejected and mode == "raise" and not writer: stop = True; break
    ends = []
    for cname, rule in checks:
        ends.append(("end", cname))
        if rule == "fail": break
    return seq + ends + [("cleanup", c[0]) for c in checks]


def unit_protocol_sweep():
    def run(ctx):
        from cutplace import interface, validio, errors
        register()
        def cid_for(fmt, fields, checks, header):
            rows = [["d", "format", fmt], ["d", "header", str(header)]]
            if any(f[3] is not None for f in fields): rows.append(["d", "allowed characters", "32, 97...122"])        # blank and a-z
            for name, may_empty, length, allowed in fields:
                ltext = str(length) if fmt == "fixed" else ("" if length is None else "%d...%d" % length)
                rows.append(["f", name, "", "x" if may_empty else "", ltext, "Recording", ""])
            for cname, rule in checks: rows.append(["c", cname, "Recording", rule])
            c = interface.Cid(); c.read("cid", rows); return c
        cells = ["a", "", "bad", "veto", "toolong", "A1"]
        def cases():
            k = 0
            for fmt in ("delimited", "fixed"):
                for nf in (1, 2):
                    for may_empty in (False, True):
                        for use_allowed in (False, True):
                            fields = [("f%d" % i, may_empty if i == 0 else True, 4 if fmt == "fixed" else (1, 4), "abcdefghijklmnopqrstuvwxyz " if use_allowed else None) for i in range(nf)]
                            for checks in ([], [("c0", "ok")], [("c0", "veto"), ("c1", "ok")], [("c0", "ok"), ("c1", "fail"), ("c2", "ok")]):
                                for nrows in (0, 1, 2, 3):
                                    for table in itertools.product(itertools.product(cells, repeat=nf), repeat=nrows):
                                        k += 1
                                        if nrows == 2 and k % (5 if ctx.thorough else 23): continue
                                        if nrows == 3 and k % (41 if ctx.thorough else 1499): continue
                                        for header, limit in ((0, None), (1, None), (0, 1), (1, 2), (0, 0)):
                                            for mode in ("raise", "yield", "continue"):
                                                yield (fmt, fields, checks, [list(r) for r in table], header, limit, mode)
        def render(fmt, rows, fields):
            if fmt == "delimited": return "".join(",".join(r) + "\r\n" for r in rows)
            return "".join("".join(c.ljust(4)[:4] for c in r) + "\n" for r in rows)
        def check(c):
            fmt, fields, checks, rows, header, limit, mode = c
            if fmt == "fixed":
                rows = [[cell.ljust(4)[:4] for cell in r] for r in rows]
            elif any(cell == "" for r in rows for cell in r) and len(fields) == 1: rows = [r for r in rows if r != [""]]     # a lone empty cell is a blank line for csv
            cid = cid_for(fmt, fields, checks, header)
            del LOG[:]
            try:
                for _ in validio.rows(cid, io.StringIO(render(fmt, rows, fields)), on_error=mode, validate_until=limit): pass
            except errors.DataError: pass
            got = list(LOG); want = predicted(fmt, fields, checks, rows, header, limit, mode)
            if got != want: return {"expected": want, "observed": got}
            # the same CID driven again through a writer: a fresh reset first, then the same per-row protocol
            del LOG[:]
            w = validio.Writer(cid, io.StringIO())
            for r in rows:
                try: w.write_row([x.rstrip() if fmt == "fixed" else x for x in r])
                except errors.DataError: pass
                except AssertionError: pass       # ill-shaped header rows for the fixed writer are the caller's business
            try: w.close()
            except errors.DataError: pass
            gotw = list(LOG)
            if gotw[:len(checks)] != [("reset", c_[0]) for c_ in checks]: return {"expected": "writer resets every check first", "observed": gotw[:len(checks) + 1]}
            tail = [("cleanup", c_[0]) for c_ in checks]
            if gotw[len(gotw) - len(tail):] != tail: return {"expected": "writer close cleans up every check", "observed": gotw[-len(tail) - 1:]}
            return None
        r1 = sweep("C20/protocol/recorded call sequence equals the predicted one (reader, all modes, header, limit) and writer resets / cleans up", cases(), check, "bounded",
                   "recording field format and check classes registered in-process x delimited / fixed x 1-2 fields (empty flag, length, allowed characters) x 0-3 checks (accepting, vetoing, failing at the end) x tables of 0-3 rows over 6 cells x header/limit combinations x 3 modes",
                   describe=lambda c: {"format": c[0], "fields": [f[:3] for f in c[1]], "checks": c[2], "rows": c[3], "header": c[4], "limit": c[5], "mode": c[6]}, function="validio + fields + checks with plug-in classes", unit="C20.protocol", props=["C20"])
        # plug-in folder: classes defined in a file are found by class name like built-ins
        def plugin_check(_):
            import tempfile, shutil, subprocess, sys
            tmp = tempfile.mkdtemp(prefix="vf_plugin_")
            try:
                with open(os.path.join(tmp, "myplugin.py"), "w") as f:
                    f.write("from cutplace import fields, checks\nclass CapitalizedFieldFormat(fields.AbstractFieldFormat):\n    def __init__(self, n, e, l, r, d):\n        super().__init__(n, e, l, r, d, empty_value='')\n    def validated_value(self, value):\n        from cutplace import errors\n        if not value[0].isupper(): raise errors.FieldValueError('must start upper case')\n        return value\n")
                code = ("import sys, io; sys.path.insert(0, %r)\nfrom cutplace import interface, validio\ninterface.import_plugins(%r)\n"
                        "cid = interface.Cid(); cid.read('c', [['d','format','delimited'],['f','name','','','','Capitalized',''],['f','other','','','','some.package.Capitalized','']])\n"
                        "out = list(validio.rows(cid, io.StringIO('Abc,Def\\nabc,Def\\n'), on_error='yield'))\nprint(type(cid.field_formats[0]).__name__, type(cid.field_formats[1]).__name__, isinstance(out[0], list), isinstance(out[1], list))\n") % (os.environ.get("PYVC_REPO", "/repo"), tmp)
                p = subprocess.run([sys.executable, "-W", "ignore", "-c", code], capture_output=True, text=True, timeout=120)
                want = "CapitalizedFieldFormat CapitalizedFieldFormat True False"
                return None if p.stdout.strip().endswith(want) else {"expected": want, "observed": (p.stdout + p.stderr)[-300:]}
            finally:
                shutil.rmtree(tmp, ignore_errors=True)
        r2 = sweep("C20/protocol/a plug-in folder class resolves by class name (plain and dotted type) like a built-in", [0], plugin_check, "bounded", "one plug-in module imported with import_plugins in a subprocess", function="interface.import_plugins + Cid._create_class", unit="C20.protocol", props=["C20"])
        return [r1, r2]
    return NativeUnit("C20.protocol", "bounded stand-in with real recording plug-in classes: recorded call sequence vs the protocol's prediction; plug-in folder import", ["C20"], run, kind="bounded", timeout=1800)


def unit_late_classes():
    def run(ctx):
        # user classes resolve by name whenever they were defined: before or after other Cids were created, and after a plug-in import
        def late_check(order):
            import subprocess, sys, tempfile, shutil
            tmp = tempfile.mkdtemp(prefix="vf_plugin_[v2] " if "bracket" in order else "vf_plugin_")      # a folder name is a name, not a glob pattern
            try:
                # every *.py file of the folder is a plug-in module, whatever its name
                for fname, cname in (("p.py", "FolderCheck"), ("__init__.py", "InitFolderCheck"), ("_private.py", "PrivateFolderCheck")):
                    with open(os.path.join(tmp, fname), "w") as f: f.write("from cutplace import checks\nclass %s(checks.AbstractCheck):\n    pass\n" % cname)
                # a second plug-in folder whose module file has the same name as one of the first folder: both folders' classes count
                os.mkdir(os.path.join(tmp, "second"))
                with open(os.path.join(tmp, "second", "p.py"), "w") as f: f.write("from cutplace import checks\nclass SecondFolderCheck(checks.AbstractCheck):\n    pass\n")
                steps = {"cid": "interface.Cid()\n", "plugins": "interface.import_plugins(%r)\n" % tmp, "plugins2": "interface.import_plugins(%r)\n" % os.path.join(tmp, "second"), "bracket": "",
                         "gc": "import gc\ngc.collect()\n",       # plug-in classes stay available however long the process runs (a garbage collection must not take them away)
                         "derive": "class LateFieldFormat(fields.TextFieldFormat):\n    pass\nclass LateCheck(checks.IsUniqueCheck):\n    pass\n",        # user classes built on the built-in ones
                         "define": "class LateFieldFormat(fields.AbstractFieldFormat):\n    def __init__(self, n, e, l, r, d):\n        super().__init__(n, e, l, r, d, empty_value='')\n    def validated_value(self, v):\n        return v\n"
                                   "class LateCheck(checks.AbstractCheck):\n    pass\n"}
                code = ("import sys; sys.path.insert(0, %r)\nfrom cutplace import interface, fields, checks\n" % os.environ.get("PYVC_REPO", "/repo")) + "".join(steps[o] for o in order)
                code += ("cid = interface.Cid(); cid.read('c', [['d','format','delimited'],['f','a','','','','Late',''],['f','b','','','','Text',''],['c','x','Late','a']%s])\n"
                         "print(type(cid.field_formats[0]).__name__, type(cid.check_for('x')).__name__%s)\n") % ((",['c','y','Folder','a'],['c','y2','InitFolder','a'],['c','y3','PrivateFolder','a']" if "plugins" in order else "") + (",['c','z','SecondFolder','a']" if "plugins2" in order else ""), (", type(cid.check_for('y')).__name__, type(cid.check_for('y2')).__name__, type(cid.check_for('y3')).__name__" if "plugins" in order else "") + (", type(cid.check_for('z')).__name__" if "plugins2" in order else ""))
                p = subprocess.run([sys.executable, "-W", "ignore", "-c", code], capture_output=True, text=True, timeout=120)
                want = "LateFieldFormat LateCheck" + (" FolderCheck InitFolderCheck PrivateFolderCheck" if "plugins" in order else "") + (" SecondFolderCheck" if "plugins2" in order else "")
                return None if p.stdout.strip().endswith(want) else {"expected": want, "observed": (p.stdout + p.stderr)[-400:]}
            finally:
                shutil.rmtree(tmp, ignore_errors=True)
        orders = [("derive",), ("cid", "derive"), ("define",), ("cid", "define"), ("cid", "define", "cid"), ("plugins", "define"), ("cid", "plugins", "define"), ("define", "cid", "plugins"), ("cid", "plugins", "cid", "define", "cid"),
                  ("plugins", "gc", "define"), ("cid", "plugins", "gc", "cid", "define", "gc"), ("bracket", "plugins", "define"),
                  ("plugins", "plugins2", "define"), ("plugins2", "plugins", "define"), ("plugins", "cid", "plugins2", "define"), ("plugins", "plugins", "plugins2", "plugins2", "define")]
        r3 = sweep("C20/protocol/user classes resolve by class name whenever they are defined (before / after other Cids, after a plug-in import)", orders, late_check, "bounded",
                   "16 orders of {create a Cid, import a plug-in folder (also one whose name contains glob characters), import a second folder holding a module file of the same name, import a folder twice, run a garbage collection, define user classes (directly on the abstract base classes, or derived from a built-in class)} before the CID that names them is read (one subprocess each)", describe=lambda o: {"order": list(o)},
                   function="interface.Cid.__init__ + _create_name_to_class_map + import_plugins", unit="C20.late-classes")
        def close_once_check(kind):
            import io
            from cutplace import interface, validio, checks, errors
            log = []
            cls = type("CloseOnce%sCheck" % kind.title(), (checks.AbstractCheck,), {
                "check_at_end": lambda self, location: (log.append(("end", self.description)), (_ for _ in ()).throw(errors.CheckError("no", location)) if self.description == "fails" else None)[-1],
                "cleanup": lambda self: log.append(("cleanup", self.description))})
            cid = interface.Cid(); cid.read("c", [["d", "format", "delimited"], ["f", "a"], ["c", "passes", "CloseOnce%s" % kind.title(), "a"], ["c", "fails", "CloseOnce%s" % kind.title(), "a"]])
            try:
                if kind == "reader":
                    with validio.Reader(cid, io.StringIO("1\n")) as r:
                        list(r.rows()); r.close()
                else:
                    with validio.Writer(cid, io.StringIO()) as w_:
                        w_.write_row(["1"]); w_.close()
            except errors.CheckError: pass
            want = [("end", "passes"), ("end", "fails"), ("cleanup", "passes"), ("cleanup", "fails")]
            return None if log == want else {"expected": "every check asked for its verdict once and cleaned up once: %r" % want, "observed": log}
        r4 = sweep("C20/protocol/an explicit close() that fails inside a with block does not ask the checks a second time", ["reader", "writer"], close_once_check, "bounded", "Reader and Writer, two recording checks, the second failing at the end",
                   describe=lambda k: {"validator": k}, function="validio.BaseValidator.close / __exit__", unit="C20.late-classes")
        # a check whose reset() fails when an unused validator is closed: every check is cleaned up all the same
        def reset_fails_check(kind):
            import io
            from cutplace import interface, validio, checks, errors
            log = []
            cls = type("ResetFails%sCheck" % kind.title(), (checks.AbstractCheck,), {
                "reset": lambda self: (log.append(("reset", self.description)), (_ for _ in ()).throw(errors.CheckError("cannot reset")) if (self.description == "fails" and getattr(self, "armed", False)) else None)[-1],
                "cleanup": lambda self: log.append(("cleanup", self.description))})
            cid = interface.Cid(); cid.read("c", [["d", "format", "delimited"], ["f", "a"], ["c", "passes", "ResetFails%s" % kind.title(), "a"], ["c", "fails", "ResetFails%s" % kind.title(), "a"], ["c", "last", "ResetFails%s" % kind.title(), "a"]])
            for c in cid.check_map.values(): c.armed = True
            del log[:]
            v = validio.Reader(cid, io.StringIO("1\n")) if kind == "reader" else validio.Writer(cid, io.StringIO())
            try: v.close()
            except errors.CutplaceError: pass
            cleaned = [d for k, d in log if k == "cleanup"]
            return None if cleaned == ["passes", "fails", "last"] else {"expected": "every check cleaned up once: ['passes', 'fails', 'last']", "observed": log}
        r5 = sweep("C20/protocol/closing an unused validator cleans every check up also when a reset fails", ["reader", "writer"], reset_fails_check, "bounded", "Reader and Writer closed unused, three recording checks, the second failing in reset()",
                   describe=lambda k: {"validator": k}, function="validio.BaseValidator.close", unit="C20.late-classes")
        return [r3, r4, r5]
    return NativeUnit("C20.late-classes", "bounded: user classes resolve by class name whenever they are defined (before / after other Cids, after a plug-in import)", ["C20", "C09", "C17"], run, kind="bounded")
