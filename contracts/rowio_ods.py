"""rowio.ods_rows over an abstract XML tree (C15; error paths C06/C10). The ElementTree observers are assumed contracts (A-XML)."""
import io, itertools, os, z3
from .common import *
from vf import findings
from vf.unit import ProofUnit, NativeUnit, Oracle, sweep
from vf.model import *

ELEM = Abs("Elem")
ES = sort_of(ELEM)
nchild = z3.Function("xml_nchildren", ES, z3.IntSort(), z3.IntSort())          # (element, kind of path) -> number of matches
child = z3.Function("xml_child", ES, z3.IntSort(), z3.IntSort(), ES)            # (element, kind, i) -> i-th match in document order
has_rep = z3.Function("cell_has_repeat_attr", ES, z3.BoolSort()); rep_text = z3.Function("cell_repeat_text", ES, z3.StringSort())
has_p = z3.Function("cell_has_paragraph", ES, z3.BoolSort()); first_p = z3.Function("cell_first_paragraph", ES, ES)
p_text = z3.Function("paragraph_text_attr", ES, sort_of(Opt(STR)))             # Element.text of a text:p (None when the paragraph starts with a child element)
cell_text = z3.Function("logical_cell_text", ES, z3.StringSort())              # what the cell shows (spec side)
plain = z3.Function("cell_is_plain", ES, z3.BoolSort())                        # at most one paragraph consisting of character data only
KIND = {"office:body/office:spreadsheet/table:table": 0, "table:table-row": 1, "table:table-cell": 2}
OS_ = sort_of(Opt(STR))


def m_findall(ex, st, fn, args, kw):
    e = args[0]; k = KIND[args[1]]
    n = nchild(e.z, k); st.pc.append(n >= 0)
    yield st, UFL(ELEM, (lambda i, e=e, k=k: child(e.z, k, i)), n)


def m_findall_method(ex, st, recv, args, kw):
    """element.findall(xpath, namespaces) called directly (the TODO in rowio._findall): the same observer as through the wrapper"""
    yield from m_findall(ex, st, None, [recv] + list(args), kw)


def m_zipfile(ex, st, fn, args, kw):
    for name in ("BadZipFile", "OSError", "EOFError"):
        sb = st.copy(); sb.ghost["fault"] = True; yield sb, Raise(ex.new_builtin_exc(sb, name, ["cannot open archive"]))
    z = Ref("Zip"); st.heap[z.oid] = {"closed": False}; st.ghost["zip"] = z; yield st, z
def m_closing(ex, st, fn, args, kw): yield st, args[0]
def m_zip_read(ex, st, recv, args, kw):
    ex.obligations.append(Obligation("reads-the-member-content.xml", st.pc, z3.BoolVal(args[0] == "content.xml"), "post", props=["C15"]))
    for name in ("KeyError", "BadZipFile"):
        sb = st.copy(); sb.ghost["fault"] = True; yield sb, Raise(ex.new_builtin_exc(sb, name, ["no such member / damaged"]))
    yield st, Opaque()
def m_zip_close(ex, st, recv, args, kw): st.heap[recv.oid]["closed"] = True; yield st, None
def m_bytesio(ex, st, fn, args, kw): b = Ref("BytesIO"); st.heap[b.oid] = {}; yield st, b
def m_parse(ex, st, fn, args, kw):
    # A-XML: ElementTree.parse on arbitrary bytes raises ParseError (malformed XML), LookupError (unknown declared encoding) or ValueError
    # (multi-byte encodings not supported by expat); all of them are "malformed content.xml" for the statement of C15
    for cls in ("ParseError", "LookupError", "ValueError"):
        sb = st.copy(); sb.ghost["fault"] = True; yield sb, Raise(ex.new_builtin_exc(sb, cls, ["malformed XML"]))
    t = Ref("Tree"); st.heap[t.oid] = {}; yield st, t
def m_getroot(ex, st, recv, args, kw): yield st, st.ghost["root"]
def absattr_attrib(ex, st, recv):
    a = Ref("Attrib"); st.heap[a.oid] = {"elem": recv}; return a
def m_attrib_get(ex, st, recv, args, kw):
    e = st.heap[recv.oid]["elem"]
    yield st, Sym(STR, z3.If(has_rep(e.z), rep_text(e.z), lift(args[1]).z))
def m_find(ex, st, recv, args, kw):
    for s2, b in ex.fork(st, Sym(BOOL, has_p(recv.z))):
        yield s2, (Sym(ELEM, first_p(recv.z)) if b else None)
def absattr_text(ex, st, recv): return Sym(Opt(STR), p_text(recv.z))
n_children = z3.Function("n_children", ES, z3.IntSort())                         # len(element): number of child elements
def abslen_elem(ex, st, recv):
    st.pc.append(n_children(recv.z) >= 0); return Sym(INT, n_children(recv.z))


def int_fns(ex):
    return ex.absfun_s("int_parses", [z3.StringSort()], z3.BoolSort()), ex.absfun_s("int_value", [z3.StringSort()], z3.IntSort())


def ods_rows_contract():
    known = findings.is_known("K-4", "C15")
    REP = z3.Function("cell_repeat", ES, z3.IntSort())       # spec side: the repeat count a cell denotes
    L = z3.Function("cells_before", ES, z3.IntSort(), z3.IntSort())    # (row element, c) -> number of logical cells produced by the first c cell elements
    def setup(ex, st):
        sheet = fresh(INT, "sheet")[0]; st.pc.append(sheet.z >= 1)
        root = fresh(ELEM, "root")[0]
        path = fresh(STR, "path")[0]; st.pc.append(z3.Length(path.z) > 0)
        st.frames[-1].env.update({"source_ods_path": path, "sheet": sheet})
        st.ghost.update({"root": root, "sheet0": sheet, "fault": False, "zip": None, "rows_yielded": 0})
        ip_, iv_ = int_fns(ex); st.pc.append(z3.And(ip_(z3.StringVal("1")), iv_(z3.StringVal("1")) == 1))      # A-INT on the literal default "1"
        st.ghost["REPdef"] = lambda e: REP(e) == z3.If(has_rep(e), int_fns(ex)[1](rep_text(e)), 1)
        # K-4 region (only when the finding is listed): for plain cells Element.text of the paragraph is the cell text
        st.ghost["PLAINdef"] = lambda e: z3.Implies(plain(e), z3.If(has_p(e), z3.Or(p_text(first_p(e)) == OS_.some(cell_text(e)), z3.And(OS_.is_none(p_text(first_p(e))), n_children(first_p(e)) == 0, cell_text(e) == z3.StringVal(""))), cell_text(e) == z3.StringVal("")))      # an empty paragraph (no text, no children) is an empty cell
        def on_yield(s, v):
            env = s.frames[-1].env; y = lift(env["_i1"]).z; table = child(G(s, "root"), 0, G(s, "sheet0") - 1); rowe = child(table, 1, y)
            n = nchild(rowe, 2); i = z3.Int("i!oy"); c = z3.Int("c!oy")
            goal = z3.BoolVal(False)
            if isinstance(v, UFL):
                cells_ok = z3.ForAll([c, i], z3.Implies(z3.And(0 <= c, c < n, L(rowe, c) <= i, i < L(rowe, c + 1), plain(child(rowe, 2, c)) if known else z3.BoolVal(True)), v.at(i) == OS_.some(cell_text(child(rowe, 2, c)))))
                goal = z3.And(v.length == L(rowe, n), cells_ok, G(s, "rows_yielded") == y)
            ex.obligations.append(Obligation("yielded-row-y-is-the-expansion-of-the-cell-runs-of-the-y-th-row-of-the-requested-sheet", s.pc, goal, "post", props=["C15"]))
            s.ghost["rows_yielded"] = Sym(INT, G(s, "rows_yielded") + 1)
        ex.yield_hook = on_yield
    def row_elem(st):
        env = st.frames[-1].env; y = lift(env.get("_i1", 0)).z
        return child(child(G(st, "root"), 0, G(st, "sheet0") - 1), 1, y)
    def unfold_L(ex, st):
        env = st.frames[-1].env; rowe = row_elem(st); out = [L(rowe, 0) == 0]
        for cz in {lift(env.get("_i2", 0)).z, lift(env.get("_i2", 0)).z - 1}:
            ce = child(rowe, 2, cz)
            out.append(z3.Implies(cz >= 0, L(rowe, cz + 1) == L(rowe, cz) + REP(ce)))
            out.append(st.ghost["REPdef"](ce))          # the repeat count a cell denotes: its attribute read as an integer, 1 when absent
            if known: out.append(st.ghost["PLAINdef"](ce))
        return out
    def row_inv(ex, st, row, k):
        kk = lift(k).z; rowe = row_elem(st); i = z3.Int("i!ri"); c = z3.Int("c!ri")
        if isinstance(row, list): return Sym(BOOL, z3.And(z3.BoolVal(len(row) == 0), kk == 0))
        mono = z3.ForAll([c], z3.Implies(z3.And(0 <= c, c < kk), z3.And(REP(child(rowe, 2, c)) >= 1, L(rowe, c + 1) == L(rowe, c) + REP(child(rowe, 2, c)), L(rowe, c + 1) <= L(rowe, kk), L(rowe, c) >= 0)))
        cells_ok = z3.ForAll([c, i], z3.Implies(z3.And(0 <= c, c < kk, L(rowe, c) <= i, i < L(rowe, c + 1), plain(child(rowe, 2, c)) if known else z3.BoolVal(True)), row.at(i) == OS_.some(cell_text(child(rowe, 2, c)))))
        return Sym(BOOL, z3.And(row.length == L(rowe, kk), L(rowe, kk) >= 0, mono, cells_ok))
    def missing_sheet_or_fault(ex, st):
        ip, iv = int_fns(ex)
        rc = st.ghost.get("last_int")       # the repeat count parsed last (the only use of int() in ods_rows), whatever local or helper holds it
        low = (lift(rc).z < 1) if rc is not None else z3.BoolVal(False)
        return Sym(BOOL, z3.Or(z3.BoolVal(bool(st.ghost["fault"])), nchild(G(st, "root"), 0) < G(st, "sheet0"), z3.BoolVal(bool(st.ghost.get("bad_repeat"))), low))
    c = Contract("rowio.ods_rows", setup,
        returns=[Clause(lambda ex, st: Sym(BOOL, G(st, "rows_yielded") == nchild(child(G(st, "root"), 0, G(st, "sheet0") - 1), 1)), "one-row-per-table-row-element-of-the-requested-sheet-in-order", props=["C15"]),
                 Clause(lambda ex, st: Sym(BOOL, nchild(G(st, "root"), 0) >= G(st, "sheet0")), "only-an-existing-sheet-is-read", props=["C15"]),
                 Clause(lambda ex, st: Sym(BOOL, z3.BoolVal(st.ghost["zip"] is None or st.heap[st.ghost["zip"].oid]["closed"] is True)), "archive-closed", props=["C15", "C06"])],
        raises={"DataFormatError": [Clause(missing_sheet_or_fault, "data-format-error-only-for-a-missing-sheet-a-damaged-container-or-a-bad-repeat-count", props=["C15", "C06", "C10"])]},
        loops={0: LoopSpec(invariants=[], havoc={"_": INT, "location._sheet": INT, "location._line": INT, "location._cell": INT, "location._column": INT}),
               1: LoopSpec(invariants=["rows_yielded == _i1"], havoc={"table_row": ELEM, "row": UFList(Opt(STR)), "table_cell": ELEM, "repeated_text": STR, "repeated_count": INT, "text_p": Opt(ELEM), "cell_value": Opt(STR),
                                                                      "location._line": INT, "location._cell": INT, "location._column": INT}, ghost_havoc={"rows_yielded": INT}),
               2: LoopSpec(invariants=["row_inv(row, _i2)"], havoc={"table_cell": ELEM, "row": UFList(Opt(STR)), "repeated_text": STR, "repeated_count": INT, "text_p": Opt(ELEM), "cell_value": Opt(STR), "location._cell": INT},
                           unfolds=[unfold_L])},
        expect=["return", "DataFormatError"], n_loops=3, raises_only_props=["C15", "C06", "C10"])
    c._sf = {"row_inv": row_inv}
    c._known = known
    return c


def unit_ods_rows():
    def make(ctx):
        c = ods_rows_contract()
        def m_int(ex, st, fn, args, kw):
            ip, iv = int_fns(ex); v = lift(args[0]).z
            for s2, b in ex.fork(st, Sym(BOOL, ip(v))):
                if b: s2.ghost["last_int"] = Sym(INT, iv(v)); yield s2, Sym(INT, iv(v))
                else: s2.ghost["bad_repeat"] = True; yield s2, Raise(ex.new_builtin_exc(s2, "ValueError", ["invalid literal"]))
        def before_raise_lt1(ex_, s): s.ghost["bad_repeat"] = True
        cal = {"rowio._findall": ModelContract(m_findall), "abs:Elem.findall": AbsContract(m_findall_method), "builtin:zipfile.ZipFile": m_zipfile, "builtin:closing": m_closing, "ref:Zip.read": m_zip_read, "ref:Zip.close": m_zip_close,
               "builtin:io.BytesIO": m_bytesio, "builtin:ElementTree.parse": m_parse, "ref:Tree.getroot": m_getroot, "absattr:Elem.attrib": absattr_attrib, "ref:Attrib.get": m_attrib_get,
               "abs:Elem.find": AbsContract(m_find), "absattr:Elem.text": absattr_text, "abslen:Elem": abslen_elem, "builtin:int": m_int}
        A = ["A-XML: ElementTree findall/find/attrib/text are abstract observers of an arbitrary tree; zipfile.ZipFile / read / ElementTree.parse raise (any exception) for non-zip files, missing members, malformed XML",
             "A-INT: int(text) is an abstract partial function raising only ValueError"]
        if c._known: A.append("known finding K-4: the cell-text clause is claimed only for plain cells (one paragraph of character data, no spans / text:s / text:tab / text:line-break / further paragraphs) and rows without number-rows-repeated")
        return {"contract": c, "callees": cal, "spec_functions": c._sf, "assumptions": A, "options": {"hooks_optional": []}}
    return ProofUnit("rowio.ods_rows", "ods_rows: requested sheet, one row per table-row, column runs expanded (loop invariant), faults and bad repeat counts -> DataFormatError", ["C15", "C06", "C10"], make, None, timeout=900)


# ---------------------------------------------------------------- independent ODF encoder + bounded audit
NS = {"office": "urn:oasis:names:tc:opendocument:xmlns:office:1.0", "table": "urn:oasis:names:tc:opendocument:xmlns:table:1.0", "text": "urn:oasis:names:tc:opendocument:xmlns:text:1.0"}


def xml_escape(s): return s.replace("&", "&amp;").replace("<", "&lt;").replace(">", "&gt;").replace('"', "&quot;")


def encode_cell_text(t, feat):
    """text of one cell as ODF paragraphs; feat: set of optional encoding features"""
    if t == "": return "<text:p/>" if "empty_p" in feat else ""        # an empty cell may carry an empty paragraph
    paras = t.split("\n") if "paragraphs" in feat else [t]
    out = []
    for p in paras:
        body = ""; i = 0
        while i < len(p):
            ch = p[i]
            if ch == " " and "text_s" in feat and i > 0:
                j = i
                while j < len(p) and p[j] == " ": j += 1
                n = j - i
                body += ('<text:s text:c="%d"/>' % n) if n > 1 else "<text:s/>"; i = j; continue
            if ch == "\t" and "text_tab" in feat: body += "<text:tab/>"; i += 1; continue
            if ch == "\n" and "line_break" in feat and "paragraphs" not in feat: body += "<text:line-break/>"; i += 1; continue
            body += xml_escape(ch); i += 1
        if "spans" in feat and len(p) >= 1 and "<text:" not in body:
            body = "<text:span>" + body[:1] + "</text:span>" + body[1:] if "&" not in body[:1] and len(body) >= 1 and body[0] not in "&<" else body
        out.append("<text:p>%s</text:p>" % body)
    return "".join(out)


def encode_ods(sheets, feat):
    parts = ['<?xml version="1.0" encoding="UTF-8"?>', '<office:document-content %s office:version="1.2"><office:body><office:spreadsheet>' % " ".join('xmlns:%s="%s"' % kv for kv in NS.items())]
    for k, rows in enumerate(sheets):
        parts.append('<table:table table:name="S%d">' % (k + 1))
        y = 0
        while y < len(rows):
            row = rows[y]; reps = 1
            if "row_runs" in feat:
                while y + reps < len(rows) and rows[y + reps] == row: reps += 1
            if "header_group" in feat and y == 0: parts.append("<table:table-header-rows>")          # the first row inside a header row group (ODF 9.1.6)
            parts.append('<table:table-row%s>' % (' table:number-rows-repeated="%d"' % reps if reps > 1 else ""))
            x = 0
            while x < len(row):
                c = row[x]; n = 1
                if "col_runs" in feat:
                    while x + n < len(row) and row[x + n] == c: n += 1
                attr = ' table:number-columns-repeated="%d"' % n if n > 1 else ""
                inner = encode_cell_text(c, feat)
                parts.append('<table:table-cell%s%s>%s</table:table-cell>' % (attr, ' office:value-type="string"' if c else "", inner) if inner else '<table:table-cell%s/>' % attr)
                x += n
            parts.append("</table:table-row>")
            if "header_group" in feat and y == 0: parts.append("</table:table-header-rows>")
            y += reps
        parts.append("</table:table>")
    if "dde_link" in feat:
        # the cached table of a DDE link is a table:table below office:spreadsheet that is *not* a sheet (ODF 1.2, 9.8 table:dde-links)
        parts.append('<table:dde-links><table:dde-link><table:table><table:table-row><table:table-cell office:value-type="string"><text:p>cached</text:p></table:table-cell></table:table-row></table:table></table:dde-link></table:dde-links>')
    parts.append("</office:spreadsheet></office:body></office:document-content>")
    return "".join(parts)


def write_ods(path, content_xml, with_content=True, encoding=None):
    """encoding: store content.xml in that encoding (declared in its XML declaration) instead of UTF-8"""
    import zipfile
    data = content_xml
    if encoding is not None:
        data = content_xml.replace('encoding="UTF-8"', 'encoding="%s"' % encoding, 1).encode(encoding)
    with zipfile.ZipFile(path, "w", zipfile.ZIP_DEFLATED) as z:
        z.writestr("mimetype", "application/vnd.oasis.opendocument.spreadsheet")
        if with_content: z.writestr("content.xml", data)


PLAIN_FEATURES = ["col_runs", "dde_link", "empty_p"]
RICH_FEATURES = ["row_runs", "text_s", "text_tab", "line_break", "spans", "paragraphs", "header_group"]


def unit_ods_audit():
    def run(ctx):
        import tempfile, shutil
        from cutplace import rowio, errors
        tmp = tempfile.mkdtemp(prefix="vf_ods_"); n = [0]; res = []
        known = findings.is_known("K-4", "C15")
        try:
            alpha = ["", "a", "a", "b c", "<&>\"'", "ä€", "x  y", "t\tu", "l\nm", "a"]
            def tables():
                for nrows in range(0, 7):
                    for ncols in range(0, 9, 2 if not ctx.thorough else 1):
                        if nrows and not ncols: continue
                        yield [[alpha[(r * 2 + c * 3 + nrows) % len(alpha)] if (r + c) % 3 else alpha[(r + nrows) % 3] for c in range(ncols)] for r in range(nrows)]
                yield [["a", "a", "a"], ["a", "a", "a"], ["b", "", ""]]
            def plain_table(t): return [[c.replace("\n", " ").replace("\t", " ").replace("  ", " ") for c in r] for r in t]
            def cases(features, plain):
                for nsheets in (1, 2, 3):
                    for t in tables():
                        t2 = plain_table(t) if plain else t
                        for fs in ([()] + [(f,) for f in features] + [tuple(features)]):
                            sheets = [t2] + [[["other%d" % k]] for k in range(1, nsheets)]
                            for want in range(1, nsheets + 1):
                                yield (sheets, set(fs), want)
            def check(c):
                sheets, feat, k = c
                n[0] += 1; path = os.path.join(tmp, "t%d.ods" % n[0]); write_ods(path, encode_ods(sheets, feat))
                try: got = list(rowio.ods_rows(path, k))
                except Exception as e: return {"expected": sheets[k - 1], "observed": repr(e)}
                finally: os.unlink(path)
                return None if got == sheets[k - 1] else {"expected": sheets[k - 1], "observed": got}
            desc = lambda c: {"sheets": c[0], "encoding_features": sorted(c[1]), "requested_sheet": c[2]}
            res.append(sweep("C15/audit/plain cells, column runs, 1-3 sheets", cases(PLAIN_FEATURES, True), check, "audit",
                             "tables of 0-6 rows x 0-8 cells over a text alphabet with XML-special and non-ASCII characters, adjacent equal cells, written by an independent ODF encoder with column runs on/off, with / without the cached table of a DDE link (a table:table that is no sheet), empty cells with / without an empty paragraph, 1-3 sheets, every sheet requested",
                             describe=desc, function="rowio.ods_rows", unit="C15.audit", props=["C15"]))
            # "in any encoding the format allows": the same documents with content.xml stored as ISO-8859-1 / UTF-16 (declared in the XML declaration)
            def enc_cases():
                for enc, t in (("ISO-8859-1", [["\u00e4b", "x"], ["<&>", "\u00fc\u00df"]]), ("UTF-16", [["\u00e4\u20ac", "x"], ["y", "\u03b1\u03c9"]]), ("UTF-8", [["\u00e4\u20ac", ""]]), ("US-ASCII", [["plain", "a b"]])):
                    for k in (1, 2): yield (enc, [t, [["second"]]], k)
            def enc_check(c):
                enc, sheets, k = c
                n[0] += 1; path = os.path.join(tmp, "e%d.ods" % n[0]); write_ods(path, encode_ods(sheets, {"col_runs"}), encoding=enc)
                try: got = list(rowio.ods_rows(path, k))
                except Exception as e: return {"expected": sheets[k - 1], "observed": repr(e)}
                finally: os.unlink(path)
                return None if got == sheets[k - 1] else {"expected": sheets[k - 1], "observed": got}
            res.append(sweep("C15/audit/content.xml stored in ISO-8859-1, UTF-16, UTF-8 and US-ASCII", enc_cases(), enc_check, "audit", "4 encodings x 2 sheets, non-ASCII cell texts where the encoding has them",
                             describe=lambda c: {"encoding": c[0], "sheets": c[1], "requested_sheet": c[2]}, function="rowio.ods_rows", unit="C15.audit", props=["C15"]))
            # the file is read anew on every call: a path whose content was replaced yields the new content (nothing is remembered per path)
            def replaced_check(_):
                path = os.path.join(tmp, "same.ods")
                seq = [[[["a", "b"], ["c", ""]]], [[["x"]], [["second", "sheet"]]], None, [[["again"]]]]
                for i, sheets in enumerate(seq):
                    if sheets is None: open(path, "wb").write(b"not a zip archive")
                    else: write_ods(path, encode_ods(sheets, set()))
                    try: got = list(rowio.ods_rows(path, 1)); err = None
                    except errors.DataFormatError as e: got = None; err = e
                    except Exception as e: return {"expected": "rows or DataFormatError", "observed": repr(e)}
                    if sheets is None:
                        if err is None: return {"expected": "DataFormatError after the file was replaced by a non-zip file", "observed": got}
                    elif got != sheets[0]: return {"expected": "content %d of the same path: %r" % (i + 1, sheets[0]), "observed": got if err is None else repr(err)}
                    if sheets is not None and len(sheets) == 1:
                        try: list(rowio.ods_rows(path, 2)); return {"expected": "DataFormatError for sheet 2 of a one-sheet document", "observed": "rows returned"}
                        except errors.DataFormatError: pass
                        except Exception as e: return {"expected": "DataFormatError for sheet 2 of a one-sheet document", "observed": repr(e)}
                os.unlink(path); return None
            res.append(sweep("C15/audit/the same path read again after its content was replaced", [0], replaced_check, "audit", "one path rewritten 4 times (2 documents, a non-zip file, a third document)", function="rowio.ods_rows", unit="C15.audit", props=["C15", "C08"]))
            # through the validating reader: the Sheet property of an ODS CID selects the sheet, a missing sheet is a data-format error
            def reader_sheet_check(k):
                from cutplace import interface, validio
                sheets = [[["first", "1"]], [["second", "2"], ["zwei", "2"]], [["third", "3"]]]
                n[0] += 1; path = os.path.join(tmp, "r%d.ods" % n[0]); write_ods(path, encode_ods(sheets, set()))
                cid = interface.Cid(); cid.read("cid", [["d", "format", "ods"], ["d", "sheet", str(k)], ["f", "name"], ["f", "number"]])
                try: got = list(validio.rows(cid, path)); err = None
                except errors.DataFormatError as e: got = None; err = e
                except Exception as e: return {"expected": "rows or DataFormatError", "observed": repr(e)}
                finally: os.unlink(path)
                if k <= 3: return None if got == sheets[k - 1] else {"expected": "Reader with Sheet %d returns %r" % (k, sheets[k - 1]), "observed": got if err is None else repr(err)}
                return None if err is not None else {"expected": "DataFormatError: sheet %d of 3 does not exist" % k, "observed": got}
            res.append(sweep("C15/audit/the Sheet property of an ODS CID selects the sheet the validating reader reads", [1, 2, 3, 4], reader_sheet_check, "audit", "a 3-sheet document x Sheet 1..4 through validio.rows",
                             describe=lambda k: {"sheet": k}, function="validio.Reader._raw_rows + rowio.ods_rows", unit="C15.audit", props=["C15"]))
            # a CID stored as ODS is recognised by its suffix whatever the case of the letters
            def suffix_check(name):
                from cutplace import interface
                path = os.path.join(tmp, name); write_ods(path, encode_ods([[["d", "format", "delimited"], ["f", "id", "", "", "", "Integer"], ["f", "name", "", "", ""]]], {"col_runs"}))
                try: cid = interface.Cid(path)
                except Exception as e: return {"expected": "CID %s loads (fields id, name)" % name, "observed": repr(e)[:200]}
                finally: os.unlink(path)
                return None if cid.field_names == ["id", "name"] else {"expected": ["id", "name"], "observed": cid.field_names}
            res.append(sweep("C15/audit/a CID stored as ODS loads whatever the case of its suffix", ["cid.ods", "CID.ODS", "Cid.Ods"], suffix_check, "audit", "3 file names", describe=lambda c: {"file": c}, function="rowio.auto_rows + ods_rows", unit="C15.audit", props=["C15", "C17"]))
            # rich encodings (recorded finding K-4): counted, reported once
            bad = []
            for c in cases(RICH_FEATURES, False):
                if not c[1]: continue
                r = check(c)
                if r: bad.append((c, r))
                if len(bad) >= 1 and not ctx.thorough: break
            if bad:
                c, r = bad[0]
                res.append(Result("C15/K-4 witness: rich cell text / repeated rows are not read as the logical table", "audit", FAILED, "native", finding="K-4", cases=len(bad), props=["C15"],
                                  detail="features %s: expected %r observed %r" % (sorted(c[1]), r["expected"], r["observed"]),
                                  replay={"verdict": "confirmed", "input": desc(c), "expected": r["expected"], "observed": r["observed"]}))
            else:
                res.append(Result("C15/audit/rich encodings", "audit", PASSED, "native", cases=1, props=["C15"]))
            # faults: must be DataFormatError (the statement lists them); missing file is OSError territory (C18, finding K-7)
            good = os.path.join(tmp, "good.ods"); content = encode_ods([[["a", "b"], ["c", "d"]]], {"col_runs"}); write_ods(good, content); data = open(good, "rb").read()
            def fault_cases():
                for cut in range(0, len(data), 64 if not ctx.thorough else 8): yield ("truncated archive", data[:cut], None)
                yield ("not a zip", b"a,b\n1,2\n", None); yield ("no content.xml", None, "nocontent")
                pos = [m for m in range(len(content)) if content[m] in "<>"]
                for p_ in pos[::3 if not ctx.thorough else 1]: yield ("content.xml cut at a tag boundary", None, content[:p_])
                for enc in ("x-no-such-charset", "utf-32", "shift_jis"):
                    yield ("content.xml declaring the encoding %s" % enc, None, content.replace('encoding="UTF-8"', 'encoding="%s"' % enc, 1))
                for bad_rep in ("0", "-1", "x", "", "1.5"):
                    yield ("repeat count %r" % bad_rep, None, content.replace("<table:table-cell ", '<table:table-cell table:number-columns-repeated="%s" ' % bad_rep, 1))
                yield ("missing sheet", None, ("SHEET", content))
                yield ("missing sheet in a document that also holds the cached table of a DDE link", None, ("SHEET", encode_ods([[["a", "b"], ["c", "d"]]], {"dde_link"})))
            def fault_check(c):
                label, blob, xml = c
                n[0] += 1; path = os.path.join(tmp, "f%d.ods" % n[0]); sheet = 1
                if blob is not None: open(path, "wb").write(blob)
                elif xml == "nocontent": write_ods(path, "", with_content=False)
                elif isinstance(xml, tuple): write_ods(path, xml[1]); sheet = 2
                else: write_ods(path, xml)
                try: list(rowio.ods_rows(path, sheet))
                except errors.DataFormatError: return None
                except Exception as e: return {"expected": "DataFormatError for %s" % label, "observed": repr(e)}
                finally: os.unlink(path)
                if label.startswith("content.xml cut") or label.startswith("truncated"): return {"expected": "DataFormatError for %s" % label, "observed": "rows returned"}
                return {"expected": "DataFormatError for %s" % label, "observed": "rows returned"}
            res.append(sweep("C15/audit/fault injection", fault_cases(), fault_check, "audit",
                             "archive truncated at every 64th byte, a non-zip file, an archive without content.xml, content.xml cut at every third tag boundary, content.xml declaring an unknown / unsupported encoding, repeat counts 0 / -1 / x / '' / 1.5, a missing sheet (also with a DDE link's cached table present)",
                             describe=lambda c: {"fault": c[0]}, function="rowio.ods_rows", unit="C15.audit", props=["C15", "C06", "C10"]))
            return res
        finally:
            shutil.rmtree(tmp, ignore_errors=True)
    return NativeUnit("C15.audit", "bounded audit with an independent ODF encoder: plain tables, rich encodings (finding K-4), fault injection", ["C15", "C06", "C10"], run, kind="audit", timeout=1800)
