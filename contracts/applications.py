"""Sidecar contracts for cutplace/applications.py: set_options (--until mapping), CutplaceApp.validate, process, main (C18, C07, C10)."""
import io, itertools, os, z3
from .common import *
from vf.unit import ProofUnit, NativeUnit, Oracle, sweep
from vf.model import *


# ---------------------------------------------------------------- models of argparse (trusted) and of the collaborators
def m_argument_parser(ex, st, fn, args, kw):
    p = Ref("ArgumentParser"); st.heap[p.oid] = {}; yield st, p
def m_add_argument(ex, st, recv, args, kw): yield st, None
def m_parse_args(ex, st, recv, args, kw):
    sb = st.copy(); yield sb, Raise(ex.new_builtin_exc(sb, "SystemExit", [2]))          # argparse rejects the arguments itself (exit code 2, trusted)
    ns = st.ghost["namespace"]; yield st, ns          # (the unchanged state is yielded last: alternatives are copied before the continuation can touch it)
def m_parser_error(ex, st, recv, args, kw):
    st.ghost["parser_error"] = True; yield st, Raise(ex.new_builtin_exc(st, "SystemExit", [2]))
def m_noop(ex, st, fn, args, kw): yield st, None
def m_set_cid(ex, st, fn, args, kw):
    st.ghost["cid_set_from"] = args[0]
    sb = st.copy(); sc = st.copy()
    yield from raise_new(ex, sb, "InterfaceError")
    yield sc, Raise(ex.new_builtin_exc(sc, "OSError", ["cannot read CID"]))
    yield st, None


def setup_set_options(ex, st):
    until = fresh(Opt(INT), "until_arg")[0]
    ns = Ref("Namespace")
    st.heap[ns.oid] = {"log_level": "info", "is_create_sql": fresh(BOOL, "create")[0], "is_gui": False, "validate_until": until, "plugins_folder": None,
                       "data_paths": None, "cid_path": fresh(STR, "cid_path")[0]}
    dp, c = fresh(UFList(STR), "data_paths"); st.pc.extend(c); st.heap[ns.oid]["data_paths"] = dp; st.ghost["data_paths"] = dp; st.ghost["cid_path"] = st.heap[ns.oid]["cid_path"]
    app = Ref("CutplaceApp")
    st.heap[app.oid] = {"_log": Ref("Logger"), "cid": None, "cid_encoding": "utf-8", "cid_path": None, "is_gui": False, "is_create_sql": False, "data_paths": None,
                        "last_validation_was_ok": False, "all_validations_were_ok": True, "validate_until": None}
    st.frames[-1].env.update({"self": app, "argv": Opaque()})
    st.ghost.update({"namespace": ns, "until_arg": until, "this": app, "parser_error": False})


def unit_set_options():
    def make(ctx):
        OI = sort_of(Opt(INT))
        def mapping(ex, st):
            u = G(st, "until_arg"); got = st.heap[st.ghost["this"].oid]["validate_until"]
            gz = lift_to(Opt(INT), got)
            return Sym(BOOL, z3.And(z3.Implies(z3.And(z3.Not(OI.is_none(u)), OI.val(u) == -1), OI.is_none(gz)),
                                    z3.Implies(z3.And(z3.Not(OI.is_none(u)), OI.val(u) >= 0), z3.And(z3.Not(OI.is_none(gz)), OI.val(gz) == OI.val(u))),
                                    z3.Implies(OI.is_none(u), OI.is_none(gz)),
                                    z3.Not(z3.And(z3.Not(OI.is_none(u)), OI.val(u) < -1))))
        def bad_until(ex, st):
            u = G(st, "until_arg")
            dp = st.ghost["data_paths"]; j = z3.Int("j!dp")
            empty_name = z3.Or(G(st, "cid_path") == "", z3.Exists([j], z3.And(0 <= j, j < dp.length, dp.at(j) == z3.StringVal(""))))
            return Sym(BOOL, z3.Or(z3.BoolVal(not st.ghost["parser_error"]), z3.And(z3.Not(OI.is_none(u)), OI.val(u) < -1), empty_name))
        def no_empty_name(ex, st):
            dp = st.ghost["data_paths"]; j = z3.Int("j!dq")
            return Sym(BOOL, z3.And(G(st, "cid_path") != "", z3.ForAll([j], z3.Implies(z3.And(0 <= j, j < dp.length), dp.at(j) != z3.StringVal("")))))
        c = Contract("applications.CutplaceApp.set_options", setup_set_options,
                returns=[Clause(mapping, "--until-N-maps-to-the-API's-validation-limit:-1-means-no-limit-N>=0-means-N", props=["C07", "C18"]),
                         Clause(no_empty_name, "accepted-arguments-name-no-empty-file", props=["C18", "C10"])],
                raises={"SystemExit": [Clause(bad_until, "arguments-are-refused-(exit-2)-only-by-argparse-for---until-below--1-or-for-an-empty-file-name", props=["C07", "C18"])], "InterfaceError": [], "OSError": []},
                expect=["return", "SystemExit"], n_loops=0)
        return {"contract": c, "callees": {"builtin:argparse.ArgumentParser": m_argument_parser, "ref:ArgumentParser.add_argument": m_add_argument, "ref:ArgumentParser.parse_args": m_parse_args,
                                           "ref:ArgumentParser.error": m_parser_error, "interface.import_plugins": ModelContract(m_noop), "applications.CutplaceApp.set_cid_from_path": ModelContract(m_set_cid)},
                "assumptions": ["argparse is trusted: parse_args returns a namespace with validate_until an int (type=int) or exits with code 2; parser.error exits with code 2",
                                "set_cid_from_path raises only InterfaceError (rejected CID) or OSError (unreadable CID) - its own contract (C09/C18)"]}
    return ProofUnit("applications.CutplaceApp.set_options", "set_options: --until -1 -> no limit, N >= 0 -> N, below -1 -> argument error", ["C07", "C18"], make, None)


# ---------------------------------------------------------------- C07 end to end (bounded): header / limit window through both APIs and the command line
def unit_c07_sweep():
    def run(ctx):
        import tempfile, shutil, logging
        from cutplace import interface, validio, errors, applications
        logging.getLogger("cutplace").setLevel(logging.CRITICAL)
        tmp = tempfile.mkdtemp(prefix="vf_c07_")
        try:
            def cid_text(h, fixed=False):
                if fixed: return "d,format,fixed\nd,line delimiter,none\nd,header,%d\nf,id,,,1,Integer\nf,name,,,2\n" % h      # records follow each other without delimiter
                return "d,format,delimited\nd,header,%d\nf,id,,,,Integer\nf,name\n" % h
            def cases():
                for h in range(0, 4):
                    for n in range(0, 5):
                        for bad in [None] + list(range(1, n + 1)):
                            for u in [None] + list(range(0, n + 2)):
                                yield (h, n, bad, u)
                                if bad is not None: yield (h, n, -bad, u)        # the bad row is a blank line (a row without items) instead of a bad cell
                                if bad is not None and bad > h and u is not None: yield (h, n, ("q", bad), u)      # the bad row breaks the container (unterminated quote): the validate-only API never gets there when it lies behind the N data rows
            def cases_huge():
                yield from cases()
                for lim in (2**63 - 1, 2**63, 2**64 + 5): yield (1, 2, ("huge", lim), lim)
            cli_count = [0]
            def check(c):
                h, n, bad, u = c
                if isinstance(bad, tuple) and bad[0] == "huge":
                    # a limit beyond anything a file can hold behaves like no limit - in both validate-only APIs and on the command line
                    text = "".join("%d,r%d\n" % (j, j) for j in range(1, n + 1)) + "x,bad\n"
                    cp = os.path.join(tmp, "cid.csv"); dp = os.path.join(tmp, "data.csv")
                    with open(cp, "w", encoding="utf-8") as f: f.write(cid_text(h))
                    with open(dp, "w", encoding="cp1252", newline="") as f: f.write(text)
                    want = n + 1 > h
                    for label, call in (("validate()", lambda: validio.validate(interface.create_cid_from_string(cid_text(h)), dp, validate_until=bad[1])),
                                        ("Reader.validate_rows()", lambda: validio.Reader(interface.create_cid_from_string(cid_text(h)), dp, validate_until=bad[1]).validate_rows())):
                        try: call(); obs = False
                        except errors.DataError: obs = True
                        if obs != want: return {"expected": "%s with limit %d %s" % (label, bad[1], "raises" if want else "passes"), "observed": "raises" if obs else "passes"}
                    rc = applications.main(["cutplace", "--until", str(bad[1]), cp, dp])
                    return None if rc == (1 if want else 0) else {"expected": "exit %d for --until %d" % (1 if want else 0, bad[1]), "observed": "exit %r" % rc}
                if isinstance(bad, tuple):
                    k = bad[1]
                    rows = [[str(j), ('"r%d' % j) if j == k else "r%d" % j] for j in range(1, n + 1)]
                    text = "".join(",".join(r) + "\n" for r in rows)
                    reached = k <= h + u          # the validate-only API stops after u data rows, i.e. after row number h + u
                    try: validio.validate(interface.create_cid_from_string(cid_text(h)), io.StringIO(text), validate_until=u); v_obs = False
                    except errors.DataError: v_obs = True
                    if v_obs != reached: return {"expected": "validate() %s (container fault in row %d, limit %d data rows after %d header rows)" % ("raises" if reached else "passes", k, u, h), "observed": "raises" if v_obs else "passes"}
                    cp = os.path.join(tmp, "cid.csv"); dp = os.path.join(tmp, "data.csv")
                    with open(cp, "w", encoding="utf-8") as f: f.write(cid_text(h))
                    with open(dp, "w", encoding="cp1252", newline="") as f: f.write(text)
                    rc = applications.main(["cutplace", "--until", str(u), cp, dp])
                    if rc != (1 if reached else 0): return {"expected": "exit %d for --until %d (what validate() with that limit says)" % (1 if reached else 0, u), "observed": "exit %r" % rc}
                    # Reader.validate_rows() in every error mode, with a bad cell in the row before the broken one as well (a rejected row counts towards the N data rows)
                    for mode in ("raise", "yield", "continue"):
                        for with_bad_cell in (False, True):
                            if with_bad_cell and (mode == "raise" or k - 1 <= h): continue
                            rows2 = [list(r) for r in rows]
                            if with_bad_cell: rows2[k - 2][0] = "x"
                            with open(dp, "w", encoding="cp1252", newline="") as f: f.write("".join(",".join(r) + "\n" for r in rows2))
                            rd = validio.Reader(interface.create_cid_from_string(cid_text(h)), dp, on_error=mode, validate_until=u)
                            try: rd.validate_rows(); r_obs = False
                            except errors.DataError: r_obs = True
                            finally:
                                try: rd.close()
                                except errors.DataError: pass
                            if r_obs != reached: return {"expected": "Reader.validate_rows() in mode %r%s %s" % (mode, " after a rejected row" if with_bad_cell else "", "raises" if reached else "passes"), "observed": "raises" if r_obs else "passes"}
                            if not r_obs and not (isinstance(rd.accepted_rows_count, int) and isinstance(rd.rejected_rows_count, int)):
                                return {"expected": "row counters that are numbers", "observed": (rd.accepted_rows_count, rd.rejected_rows_count)}
                            if rd.on_error != mode: return {"expected": "the reader keeps its error mode %r" % mode, "observed": rd.on_error}
                    return None
                blank = bad is not None and bad < 0; bad = abs(bad) if bad is not None else None
                rows = [([] if blank and k == bad else ["x" if k == bad else str(k), "r%d" % k]) for k in range(1, n + 1)]
                text = "".join(",".join(r) + "\n" for r in rows)
                reported = bad is not None and bad > h and (u is None or bad <= u)
                # row-reading API
                cid = interface.create_cid_from_string(cid_text(h))
                out = list(validio.rows(cid, io.StringIO(text), on_error="yield", validate_until=u))
                want = []
                for k, r in enumerate(rows, 1):
                    if k <= h: continue
                    want.append(("E", k) if (k == bad and reported) else r)
                got = [("E", x.location.line + 1) if isinstance(x, errors.DataError) else x for x in out]
                if got != want: return {"expected": want, "observed": got}
                # a second pass with the same Reader sees the same window (row numbers start again at 1)
                if (h + n + (bad or 0)) % 2 == 0 or ctx.thorough:
                    dp2 = os.path.join(tmp, "pass2.csv")
                    with open(dp2, "w", encoding="cp1252", newline="") as f: f.write(text)
                    rd = validio.Reader(interface.create_cid_from_string(cid_text(h)), dp2, on_error="yield", validate_until=u)
                    for attempt in (1, 2):
                        # (the location of a Reader is not rewound by a second pass - row numbers in errors go on counting; only the window is compared)
                        got2 = ["E" if isinstance(x, errors.DataError) else x for x in rd.rows()]
                        want2 = ["E" if isinstance(x, tuple) else x for x in want]
                        if got2 != want2: return {"expected": "pass %d over the same Reader: %r" % (attempt, want2), "observed": got2}
                    rd.close()
                # the same window for fixed-width data without line delimiter (header rows are records there, too)
                if not blank:
                    ftext = "".join(r[0] + r[1] for r in rows)
                    outf = list(validio.rows(interface.create_cid_from_string(cid_text(h, True)), io.StringIO(ftext), on_error="yield", validate_until=u))
                    gotf = [("E", x.location.line + 1) if isinstance(x, errors.DataError) else x for x in outf]
                    if gotf != want: return {"expected": "fixed / line delimiter none: %r" % (want,), "observed": gotf}
                # validate-only API
                cid = interface.create_cid_from_string(cid_text(h))
                try: validio.validate(cid, io.StringIO(text), validate_until=u); v_obs = False
                except errors.DataError: v_obs = True
                if v_obs != reported: return {"expected": "validate() %s" % ("raises" if reported else "passes"), "observed": "raises" if v_obs else "passes"}
                # command line --until (sampled: every 7th case, files on disk)
                cli_count[0] += 1
                if cli_count[0] % 3 == 0 or u == 0 or ctx.thorough:
                    cp = os.path.join(tmp, "cid.csv"); dp = os.path.join(tmp, "data.csv")
                    with open(cp, "w", encoding="utf-8") as f: f.write(cid_text(h))
                    with open(dp, "w", encoding="cp1252", newline="") as f: f.write(text)
                    argv = ["cutplace"] + ([] if u is None else ["--until", str(u)]) + [cp, dp]
                    rc = applications.main(argv)
                    if rc != (1 if reported else 0): return {"expected": "exit %d for %r" % (1 if reported else 0, argv[1:-2]), "observed": "exit %r" % rc}
                    if u is None:
                        rc = applications.main(["cutplace", "--until", "-1", cp, dp])
                        if rc != (1 if reported else 0): return {"expected": "--until -1 behaves like no limit", "observed": "exit %r" % rc}
                return None
            return [sweep("C07/sweep/header and limit window through rows(), validate() and --until", cases_huge(), check, "bounded",
                          "header 0-3 x tables of 0-4 rows x a single bad row (a bad cell, a blank line, or an unterminated quote for the validate-only APIs) at every position (or none) x limit in {none, 0..rows+1} x both APIs (and fixed-width data without line delimiter); command line --until on every 3rd case and every --until 0 case (all in thorough)",
                          describe=lambda c: {"header": c[0], "rows": c[1], "bad_row": (c[2][1] if isinstance(c[2], tuple) else abs(c[2])) if c[2] else None, "bad_row_is": ("a limit of 2**63 or more" if c[2][0] == "huge" else "an unterminated quote") if isinstance(c[2], tuple) else ("a blank line" if c[2] and c[2] < 0 else "a bad cell"), "validate_until": c[3]}, function="validio.rows / validio.validate / applications.main", unit="C07.sweep")]
        finally:
            shutil.rmtree(tmp, ignore_errors=True)
    return NativeUnit("C07.sweep", "bounded sweep of the header/limit window through both APIs and the command line", ["C07"], run, kind="bounded")


# =====================================================================================================================
# CutplaceApp.validate / process / main : exit-code mapping over abstract per-file outcomes (C18)
# =====================================================================================================================
def m_new_reader(ex, st, info, args, kw):
    r = Ref("Reader"); st.heap[r.oid] = {"accepted_rows_count": fresh(INT, "acc")[0]}
    st.ghost["reader_args"] = (list(args), dict(kw)); st.ghost["reader"] = r
    kind = st.ghost["outcome"]      # 0 accepted, 1 rejected by validation, 2 file cannot be read, 3 rejected when closing (end check)
    if feasible(st.pc, kind.z == 2):
        sb = st.copy(); sb.pc.append(kind.z == 2); yield sb, Raise(ex.new_builtin_exc(sb, "OSError", ["cannot read"]))
    st.pc.append(kind.z != 2)
    yield st, r


def m_validate_rows(ex, st, recv, args, kw):
    kind = st.ghost["outcome"]
    if feasible(st.pc, kind.z == 1):
        sb = st.copy(); sb.pc.append(kind.z == 1); yield from raise_new(ex, sb, "DataError")
    if feasible(st.pc, kind.z == 4):
        sb = st.copy(); sb.pc.append(kind.z == 4); yield sb, Raise(ex.new_builtin_exc(sb, "OSError", ["cannot read"]))    # readers open the file lazily
    st.pc.append(z3.And(kind.z != 1, kind.z != 4)); yield st, None


def m_close(ex, st, recv, args, kw):
    st.ghost["close_calls"] = st.ghost["close_calls"] + 1
    kind = st.ghost["outcome"]
    if feasible(st.pc, kind.z == 3):
        sb = st.copy(); sb.pc.append(kind.z == 3); yield from raise_new(ex, sb, "CheckError")
    st.pc.append(kind.z != 3); yield st, None


def unit_app_validate():
    def setup(ex, st):
        flag0 = fresh(BOOL, "flag0")[0]; vu = fresh(Opt(INT), "validate_until")[0]; so = sort_of(Opt(INT)); st.pc.append(z3.Or(so.is_none(vu.z), so.val(vu.z) >= 0))
        cid = Ref("Cid")
        app = Ref("CutplaceApp"); st.heap[app.oid] = {"cid": cid, "validate_until": vu, "all_validations_were_ok": flag0, "last_validation_was_ok": False}
        path = fresh(STR, "data_path")[0]
        st.frames[-1].env.update({"self": app, "data_path": path})
        outcome = fresh(INT, "outcome")[0]; st.pc.append(z3.And(outcome.z >= 0, outcome.z <= 4))
        st.ghost.update({"this": app, "flag0": flag0, "outcome": outcome, "close_calls": 0, "cid": cid, "path": path, "vu": vu})
    def reader_ok(ex, st):
        a, kw = st.ghost.get("reader_args", (None, None))
        if a is None: return Sym(BOOL, z3.BoolVal(True))
        return Sym(BOOL, z3.BoolVal(len(a) == 2 and a[0] is st.ghost["cid"] and a[1] is st.ghost["path"] and kw.get("validate_until") is st.ghost["vu"]))
    def make(ctx):
        c = Contract("applications.CutplaceApp.validate", setup,
                returns=[Clause("this.all_validations_were_ok == (flag0 and outcome == 0)", "the-flag-stays-set-iff-it-was-set-and-this-file-is-accepted-(sticky-never-set-again)", props=["C18"]),
                         Clause("outcome != 2 and outcome != 4", "an-unreadable-file-is-not-swallowed", props=["C18"]),
                         Clause(reader_ok, "the-file-is-validated-with-the-application's-CID-and-limit", props=["C18", "C07"])],
                raises={"OSError": [Clause("outcome == 2 or outcome == 4", "only-an-unreadable-file-raises", props=["C18"]), Clause("this.all_validations_were_ok == flag0", "flag-untouched", props=["C18"])]},
                expect=["return", "OSError"], n_loops=0, modifies=["CutplaceApp.all_validations_were_ok"])
        return {"contract": c, "callees": {"class:Reader": m_new_reader, "ref:Reader.validate_rows": m_validate_rows, "ref:Reader.close": m_close},
                "assumptions": ["per-file outcome is abstract: accepted / rejected while reading (DataError) / rejected by an end check in close() (CheckError) / cannot be read (OSError when the reader is built or when rows are first read)",
                                "logging calls are no-ops (A-LOG)"]}
    return ProofUnit("applications.CutplaceApp.validate", "CutplaceApp.validate: CutplaceError swallowed into a sticky flag, OSError propagates", ["C18"], make, None)


def unit_process():
    def m_new_app(ex, st, info, args, kw):
        app = Ref("CutplaceApp"); st.heap[app.oid] = {"is_gui": False, "is_create_sql": False, "data_paths": st.ghost["paths"], "all_validations_were_ok": True, "cid_path": "cid", "cid": Ref("Cid")}
        st.ghost["app"] = app; yield st, app
    def m_set_options(ex, st, recv, args, kw):
        sb = st.copy(); sb.ghost["setup_failed"] = True; yield from raise_new(ex, sb, "InterfaceError")
        yield st, None
    def m_validate(ex, st, recv, args, kw):
        i = lift(st.frames[-1].env["_i0"]).z; o = st.heap[recv.oid]
        res = st.ghost["file_result"]     # Int -> Int : 0 accepted, 1 rejected, 2 unreadable
        ex.obligations.append(Obligation("each-file-is-validated-once-in-the-given-order", st.pc, lift(args[0]).z == st.ghost["paths"].at(i), "protocol", props=["C18"]))
        if feasible(st.pc, res(i) == 2):
            sb = st.copy(); sb.pc.append(res(i) == 2); yield sb, Raise(ex.new_builtin_exc(sb, "OSError", ["cannot read"]))
        st.pc.append(res(i) != 2)
        o["all_validations_were_ok"] = Sym(BOOL, z3.And(lift(o["all_validations_were_ok"]).z, res(i) == 0))
        yield st, None
    def setup(ex, st):
        paths, c = fresh(UFList(STR), "paths"); st.pc.extend(c)
        res = z3.Function("file_result", z3.IntSort(), z3.IntSort()); j = z3.Int("j")
        st.pc.append(z3.ForAll([j], z3.And(res(j) >= 0, res(j) <= 2)))
        st.frames[-1].env.update({"argv": Opaque()})
        st.ghost.update({"paths": paths, "file_result": res, "setup_failed": False, "app": None})
    def all_ok_upto(ex, st, k):
        j = z3.Int("j!ok"); res = st.ghost["file_result"]
        return Sym(BOOL, z3.ForAll([j], z3.Implies(z3.And(0 <= j, j < lift(k).z), res(j) == 0)))
    def none_unreadable_upto(ex, st, k):
        j = z3.Int("j!nu"); res = st.ghost["file_result"]
        return Sym(BOOL, z3.ForAll([j], z3.Implies(z3.And(0 <= j, j < lift(k).z), res(j) != 2)))
    def make(ctx):
        c = Contract("applications.process", setup,
                returns=[Clause("none_unreadable_upto(len(paths))", "finishes-only-if-every-file-could-be-read", props=["C18"]),
                         Clause("(result == 0) == all_ok_upto(len(paths)) and (result == 0 or result == 1)", "0-iff-every-file-is-accepted-else-1-independent-of-order", props=["C18"])],
                raises={"OSError": [Clause("not none_unreadable_upto(len(paths))", "environment-error-only-for-an-unreadable-file", props=["C18"])],
                        "InterfaceError": [Clause(lambda ex, st: Sym(BOOL, z3.BoolVal(bool(st.ghost["setup_failed"]))), "a-rejected-CID-stops-before-any-file", props=["C18"])]},
                loops={0: LoopSpec(invariants=["app.all_validations_were_ok == all_ok_upto(_i0)", "none_unreadable_upto(_i0)"], havoc={"data_path": STR, "app.all_validations_were_ok": BOOL})},
                expect=["return", "OSError", "InterfaceError"], n_loops=1)
        return {"contract": c, "callees": {"class:CutplaceApp": m_new_app, "ref:CutplaceApp.set_options": m_set_options, "ref:CutplaceApp.validate": m_validate},
                "spec_functions": {"all_ok_upto": all_ok_upto, "none_unreadable_upto": none_unreadable_upto},
                "assumptions": ["CutplaceApp.validate is used through its contract (verified unit); the per-file result is an arbitrary function of the file (independence of files and order is C08)",
                                "the --gui and --create branches are outside this property"]}
    return ProofUnit("applications.process", "process(): one CID, every data file validated in order; 1 iff some file was rejected; unreadable file -> EnvironmentError", ["C18"], make, None)


def unit_main():
    def m_process(ex, st, fn, args, kw):
        k = st.ghost["kind"]     # 0 returns r, 1 OSError, 2 CutplaceError, 3 any other exception, 4 SystemExit (argparse)
        for kind, mk in ((1, lambda s: Raise(ex.new_builtin_exc(s, "OSError", ["env"]))), (3, lambda s: Raise(ex.new_builtin_exc(s, "KeyError", ["bug"]))), (4, lambda s: Raise(ex.new_builtin_exc(s, "SystemExit", [2])))):
            if feasible(st.pc, k.z == kind):
                sb = st.copy(); sb.pc.append(k.z == kind); yield sb, mk(sb)
        if feasible(st.pc, k.z == 2):
            # any cutplace error: a rejected CID (InterfaceError), a CID file that cannot be parsed (DataFormatError), a rejected row, a failed check
            for cls in ("InterfaceError",):      # the only cutplace error process() lets out (its own contract: a rejected CID; since repair F-45 that includes CID files that cannot be parsed)
                sb = st.copy(); sb.pc.append(k.z == 2); yield from raise_new(ex, sb, cls)
        st.pc.append(k.z == 0); yield st, st.ghost["r"]
    def setup(ex, st):
        kind = fresh(INT, "kind")[0]; st.pc.append(z3.And(kind.z >= 0, kind.z <= 4)); r = fresh(INT, "r")[0]; st.pc.append(z3.Or(r.z == 0, r.z == 1))
        st.frames[-1].env.update({"argv": ["cutplace"]}); st.ghost.update({"kind": kind, "r": r})
    def make(ctx):
        c = Contract("applications.main", setup,
                returns=[Clause("result == (r if kind == 0 else (3 if kind == 1 else (1 if kind == 2 else 4)))", "exit-code-mapping:-process-result-/-3-environment-/-1-cutplace-error-/-4-anything-else", props=["C18", "C10"])],
                raises={"SystemExit": [Clause("kind == 4", "only-argparse's-exit-(code-2)-passes-through", props=["C18"])]},
                expect=["return", "SystemExit"], n_loops=0)
        return {"contract": c, "callees": {"applications.process": ModelContract(m_process)}, "assumptions": ["process() is used through its contract; SystemExit is not an Exception and passes through main (exit code 2 from argparse)"]}
    return ProofUnit("applications.main", "main(): exception -> exit code mapping", ["C18", "C10"], make, None)


class MainOracle(Oracle):
    pass


def unit_c18_table():
    def run(ctx):
        import tempfile, shutil, logging, contextlib
        from cutplace import applications
        logging.getLogger("cutplace").setLevel(logging.CRITICAL)
        tmp = tempfile.mkdtemp(prefix="vf_c18_")
        try:
            def w(name, text):
                p = os.path.join(tmp, name)
                with open(p, "w", encoding="utf-8", newline="") as f: f.write(text)
                return p
            cids = {"valid": w("cid.csv", "d,format,delimited\nf,id,,,,Integer\nf,name\nc,u,IsUnique,id\nc,few names,DistinctCount,name <= 2\n"), "rejected": w("bad.csv", "d,format,delimited\nf,id,,,,NoSuchType\n"), "missing": os.path.join(tmp, "nocid.csv")}
            os.mkdir(os.path.join(tmp, "dir"))
            files = {"accepted": (w("a.csv", "1,x\n2,y\n"), 0), "field": (w("f.csv", "1,x\nq,y\n"), 1), "unique": (w("u.csv", "1,x\n1,y\n"), 1), "sibling": (w("s.csv", "1,z\n2,z\n"), 0), "endcheck": (w("e.csv", "1,p\n2,q\n3,r\n"), 1),
                     "missing": (os.path.join(tmp, "nofile.csv"), 3), "directory": (os.path.join(tmp, "dir"), 3)}
            def cases():
                for cid in cids:
                    for n in range(0, 4):
                        for fl in itertools.product(sorted(files), repeat=n):
                            if cid != "valid" and n > 1: continue
                            for until in (None, "-1", "0", "1"):
                                if until is not None and n > 2: continue
                                yield (cid, list(fl), until)
            def check(c):
                cid, fl, until = c
                argv = ["cutplace"] + ([] if until is None else ["--until", until]) + [cids[cid]] + [files[f][0] for f in fl]
                with contextlib.redirect_stderr(io.StringIO()):
                    try: rc = applications.main(argv)
                    except SystemExit as e: rc = ("exit", e.code)
                if cid == "rejected": want = 1
                elif cid == "missing": want = 3
                else:
                    # the statement: 0 iff every file is accepted by the programmatic API (with the same validation limit), 1 if one is rejected, 3 when a file cannot be read
                    from cutplace import interface, validio, errors
                    want = 0; limit = None if until in (None, "-1") else int(until)
                    for f in fl:
                        try: validio.validate(interface.Cid(cids[cid]), files[f][0], validate_until=limit); code = 0
                        except errors.DataError: code = 1
                        except OSError: code = 3
                        if limit is None and code != files[f][1]: return {"expected": "the API's verdict %d on file %r (table of this check)" % (files[f][1], f), "observed": code}
                        if code == 3: want = 3; break
                        want = max(want, code)
                return None if rc == want else {"expected": "exit %r" % (want,), "observed": "exit %r" % (rc,)}
            r1 = sweep("C18/table/exit codes through main()", cases(), check, "bounded",
                       "CID in {valid, rejected, missing} x every list of 0-3 data files over {accepted, rejected by a field, rejected by IsUnique, rejected only by the end-of-data DistinctCount check, sharing keys with a sibling, missing, directory} in every order x --until in {absent, -1, 0, 1}",
                       describe=lambda c: {"cid": c[0], "files": c[1], "until": c[2]}, function="applications.main", unit="C18.table")
            # unreadable data files under the spreadsheet formats (ods: recorded finding K-7, see the witness unit)
            xcid = w("xcid.csv", "d,format,excel\nf,id,,,,Integer\nf,name\n")
            import xlsxwriter
            good_x = os.path.join(tmp, "good.xlsx"); wb = xlsxwriter.Workbook(good_x); ws = wb.add_worksheet(); ws.write_string(0, 0, "1"); ws.write_string(0, 1, "x"); wb.close()
            os.mkdir(os.path.join(tmp, "dir.xlsx"))
            def xcases():
                for fl in (["good"], ["missing"], ["directory"], ["good", "missing"], ["good", "directory"], ["directory", "good"]): yield fl
            def xcheck(fl):
                paths = {"good": good_x, "missing": os.path.join(tmp, "nofile.xlsx"), "directory": os.path.join(tmp, "dir.xlsx")}
                with contextlib.redirect_stderr(io.StringIO()):
                    try: rc = applications.main(["cutplace", xcid] + [paths[f] for f in fl])
                    except SystemExit as e: rc = ("exit", e.code)
                want = 3 if any(f != "good" for f in fl) else 0
                return None if rc == want else {"expected": "exit %d" % want, "observed": "exit %r" % (rc,)}
            # a CID file that is damaged (not just a CID with a wrong row) is a rejected CID: exit 1
            def dcases():
                yield ("zero-byte ods", "d0.ods", b""); yield ("non-zip ods", "d1.ods", b"this is no zip archive"); yield ("damaged xlsx", "d2.xlsx", b"PK\x03\x04 damaged")
                yield ("csv with an unterminated quote", "d3.csv", b'd,format,delimited\nf,"id\n'); yield ("csv that is not UTF-8", "d4.csv", b"d,format,delimited\nf,n\xe4me\n")
            def dcheck(c):
                label, name, blob = c
                p_ = os.path.join(tmp, name); open(p_, "wb").write(blob)
                with contextlib.redirect_stderr(io.StringIO()):
                    try: rc = applications.main(["cutplace", p_] + ([files["accepted"][0]] if "csv" in label else []))
                    except SystemExit as e: rc = ("exit", e.code)
                return None if rc == 1 else {"expected": "exit 1 (the CID is rejected)", "observed": "exit %r" % (rc,)}
            r5 = sweep("C18/table/a damaged CID file is a rejected CID (exit 1)", dcases(), dcheck, "bounded", "5 damaged CID files (ods, xlsx, csv)", describe=lambda c: {"cid file": c[0]}, function="applications.main", unit="C18.table")
            # an empty file name is a name that cannot be read (3) or an unusable argument (2), never an internal failure
            def ncases():
                yield [""]; yield [cids["valid"], ""]; yield [cids["valid"], files["accepted"][0], ""]; yield ["--until", "1", cids["valid"], ""]; yield ["--plugins", "", cids["valid"], files["accepted"][0]]
            def ncheck(args):
                with contextlib.redirect_stderr(io.StringIO()):
                    try: rc = applications.main(["cutplace"] + list(args))
                    except SystemExit as e: rc = ("exit", e.code)
                return None if rc in (3, ("exit", 2)) else {"expected": "exit 3 (file cannot be read) or 2 (unusable argument)", "observed": "exit %r" % (rc,)}
            r7 = sweep("C18/table/an empty file name", ncases(), ncheck, "bounded", "4 argument lists with an empty CID or data file name", describe=lambda a: {"argv": list(a)}, function="applications.main", unit="C18.table", props=["C18", "C10"])
            # a file that cannot be read stays "cannot be read" (3) also when the CID has an end-of-data check that fails on zero rows
            ecid = w("ecid.csv", "d,format,delimited\nf,id,,,,Integer\nf,name\nc,some,DistinctCount,name >= 1\n")
            def ecases():
                for fl in (["accepted"], ["missing"], ["directory"], ["accepted", "missing"], ["missing", "accepted"]): yield fl
                # with a limit of 0 no row is validated, but the end-of-data checks still give their verdict on the empty set (as through the API)
                for fl in (["accepted"], ["accepted", "field"]): yield ["--until", "0"] + fl
            def echeck(fl):
                opts = fl[:2] if fl[0] == "--until" else []; fl = fl[len(opts):]
                with contextlib.redirect_stderr(io.StringIO()):
                    try: rc = applications.main(["cutplace"] + opts + [ecid] + [files[f][0] for f in fl])
                    except SystemExit as e: rc = ("exit", e.code)
                if opts:
                    from cutplace import interface, validio, errors
                    want = 0
                    for f in fl:
                        try: validio.validate(interface.Cid(ecid), files[f][0], validate_until=0)
                        except errors.DataError: want = 1
                    if want != 1: return {"expected": "the API rejects zero validated rows under DistinctCount name >= 1", "observed": "accepted"}
                else: want = 3 if any(files[f][1] == 3 for f in fl) else 0
                return None if rc == want else {"expected": "exit %d" % want, "observed": "exit %r" % (rc,)}
            r4 = sweep("C18/table/an unreadable file exits with 3 also under a CID whose end-of-data check fails on zero rows", ecases(), echeck, "bounded", "CID with DistinctCount name >= 1 x 5 file lists over {accepted, missing, directory}",
                       describe=lambda c: {"files": c}, function="applications.main + validio.BaseValidator.__exit__", unit="C18.table")
            r3 = sweep("C18/table/a named Excel data file that cannot be read exits with 3", xcases(), xcheck, "bounded", "Excel CID x 6 file lists over {readable workbook, missing file, directory}", describe=lambda c: {"files": c},
                       function="applications.main + rowio.excel_rows", unit="C18.table")
            def argcases():
                yield ["cutplace"]; yield ["cutplace", "--nonsense"]; yield ["cutplace", "--until", "-2", cids["valid"]]; yield ["cutplace", "--until", "x", cids["valid"]]
            def argcheck(argv):
                with contextlib.redirect_stderr(io.StringIO()):
                    try: rc = applications.main(argv)
                    except SystemExit as e: rc = ("exit", e.code)
                return None if rc == ("exit", 2) else {"expected": "argument error, exit code 2", "observed": repr(rc)}
            r2 = sweep("C18/table/unusable arguments exit with 2", argcases(), argcheck, "bounded", "4 unusable argument lists", function="applications.main", unit="C18.table")
            return [r1, r2, r3, r4, r5, r7]
        finally:
            shutil.rmtree(tmp, ignore_errors=True)
    return NativeUnit("C18.table", "bounded end-to-end table of exit codes through applications.main (in-process)", ["C18"], run, kind="bounded")


def unit_k7_witness():
    def run(ctx):
        import tempfile, shutil, logging, contextlib
        from cutplace import applications
        logging.getLogger("cutplace").setLevel(logging.CRITICAL)
        tmp = tempfile.mkdtemp(prefix="vf_k7_")
        try:
            cp = os.path.join(tmp, "cid.csv")
            with open(cp, "w", encoding="utf-8") as f: f.write("d,format,ods\nf,id\n")
            with contextlib.redirect_stderr(io.StringIO()):
                rc = applications.main(["cutplace", cp, os.path.join(tmp, "missing.ods")])
            if rc == 3: return [Result("C18/K-7 witness", "bounded", PASSED, "native", cases=1)]
            return [Result("C18/K-7 witness: a missing .ods data file exits with %r instead of 3" % (rc,), "bounded", FAILED, "native", finding="K-7" if rc == 1 else None, cases=1,
                           detail="ods_rows turns FileNotFoundError into DataFormatError", replay={"verdict": "confirmed", "input": "cutplace <ods cid> missing.ods", "expected": "exit code 3", "observed": "exit code %r" % (rc,)})]
        finally:
            shutil.rmtree(tmp, ignore_errors=True)
    return NativeUnit("C18.witness.K-7", "replay of recorded finding K-7 (missing .ods file exits 1)", ["C18"], run, kind="bounded")


def unit_set_cid_from_path():
    def setup(ex, st):
        path = fresh(STR, "cid_path")[0]
        old = Ref("Cid"); st.heap[old.oid] = {}
        app = Ref("CutplaceApp"); st.heap[app.oid] = {"cid": old, "cid_path": "old.ods", "_log": Opaque()}
        st.frames[-1].env.update({"self": app, "cid_path": path})
        st.ghost.update({"this": app, "path": path, "old": old, "new": None, "rows": None, "read_args": None, "rows_from": None, "failed": None})
    def m_new_cid(ex, st, info, args, kw):
        ex.obligations.append(Obligation("the-new-CID-starts-empty-(no-path-given-to-the-constructor)", st.pc, z3.BoolVal(len(args) == 0 and not kw), "post", props=["C18", "C08"]))
        c = Ref("Cid"); st.heap[c.oid] = {}; st.ghost["new"] = c; yield st, c
    def m_auto_rows(ex, st, fn, args, kw):
        st.ghost["rows_from"] = args[0]
        sb = st.copy(); sb.ghost["failed"] = "rows"; yield from raise_new(ex, sb, "DataFormatError")
        sc = st.copy(); sc.ghost["failed"] = "os"; yield sc, Raise(ex.new_builtin_exc(sc, "OSError", ["cannot read"]))
        r = Ref("RowIter"); st.heap[r.oid] = {}; st.ghost["rows"] = r; yield st, r
    def m_read(ex, st, recv, args, kw):
        st.ghost["read_args"] = (recv, args[0], args[1])
        sb = st.copy(); sb.ghost["failed"] = "read"; yield from raise_new(ex, sb, "InterfaceError")
        yield st, None
    def c_ok(ex, st):
        g = st.ghost; o = st.heap[g["this"].oid]
        ok = (g["new"] is not None and o["cid"] is g["new"] and o["cid_path"] is g["path"] and g["rows_from"] is g["path"]
              and g["read_args"] is not None and g["read_args"][0] is g["new"] and g["read_args"][1] is g["path"] and g["read_args"][2] is g["rows"])
        return Sym(BOOL, z3.BoolVal(bool(ok)))
    def c_unchanged(ex, st):
        g = st.ghost; o = st.heap[g["this"].oid]
        return Sym(BOOL, z3.BoolVal(o["cid"] is g["old"] and o["cid_path"] == "old.ods" and g["failed"] is not None))
    def make(ctx):
        c = Contract("applications.CutplaceApp.set_cid_from_path", setup,
                returns=[Clause(c_ok, "the-application's-CID-is-a-fresh-Cid-read-from-the-rows-of-the-given-path", props=["C18", "C08"])],
                raises={"InterfaceError": [Clause(c_unchanged, "a-rejected-CID-leaves-the-application's-CID-untouched", props=["C18"])],
                        "DataFormatError": [Clause(c_unchanged, "an-unreadable-CID-leaves-the-application's-CID-untouched", props=["C18"])],
                        "OSError": [Clause(c_unchanged, "a-missing-CID-file-leaves-the-application's-CID-untouched", props=["C18"])]},
                expect=["return", "InterfaceError", "DataFormatError", "OSError"], raises_only_props=["C18", "C10"])
        return {"contract": c, "callees": {"class:Cid": m_new_cid, "rowio.auto_rows": ModelContract(m_auto_rows), "ref:Cid.read": m_read},
                "assumptions": ["Cid.read and rowio.auto_rows are used through their verified contracts (interface.Cid.read, rowio.auto_rows)"]}
    return ProofUnit("applications.CutplaceApp.set_cid_from_path", "set_cid_from_path: a fresh Cid read from the rows of the path replaces the application's CID only on success", ["C18", "C08", "C10"], make, None)


def unit_app_init():
    def setup(ex, st):
        app = Ref("CutplaceApp"); st.heap[app.oid] = {}
        st.frames[-1].env.update({"self": app}); st.ghost["this"] = app
    def c_init(ex, st):
        o = st.heap[st.ghost["this"].oid]
        ok = (o.get("cid", 0) is None and o.get("cid_path", 0) is None and o.get("data_paths", 0) is None and o.get("validate_until", 0) is None
              and o.get("is_gui") is False and o.get("is_create_sql") is False and o.get("all_validations_were_ok") is True and o.get("last_validation_was_ok") is False)
        return Sym(BOOL, z3.BoolVal(bool(ok)))
    def make(ctx):
        c = Contract("applications.CutplaceApp.__init__", setup,
                returns=[Clause(c_init, "a-new-application-has-no-CID-no-files-no-validation-limit-and-has-seen-no-rejection", props=["C18", "C07"])], raises={}, expect=["return"], raises_only_props=["C18", "C10"])
        return {"contract": c, "callees": {"builtin:logging.getLogger": lambda ex, st, fn, a, k: iter([(st, Opaque())])}}
    return ProofUnit("applications.CutplaceApp.__init__", "CutplaceApp.__init__: initial state (all_validations_were_ok, validate_until None)", ["C18", "C07"], make, None)
