"""Run one unit of one property in this process and write its outcome as JSON."""
import argparse, importlib, json, os, sys, warnings

def main(argv=None):
    ap = argparse.ArgumentParser()
    ap.add_argument("--prop", required=True); ap.add_argument("--unit", required=True)
    ap.add_argument("--tier", default="quick"); ap.add_argument("--seed", type=int, default=0); ap.add_argument("--out", required=True)
    a = ap.parse_args(argv)
    warnings.filterwarnings("ignore")
    here = os.path.dirname(os.path.dirname(os.path.abspath(__file__)))
    if here not in sys.path: sys.path.insert(0, here)
    repo = os.environ.get("PYVC_REPO", "/repo")
    if repo not in sys.path: sys.path.insert(0, repo)
    from vf.unit import Ctx
    from vf.model import dumps
    mod = importlib.import_module("props." + a.prop)
    unit = next((u for u in mod.UNITS if u.uid == a.unit), None)
    if unit is None:
        print("no such unit", a.unit, file=sys.stderr); return 3
    out = unit.execute(Ctx(a.tier, a.seed, a.prop))
    # the replay must run against the repository under test
    try:
        import cutplace
        out["cutplace_file"] = os.path.dirname(os.path.abspath(cutplace.__file__))
        if not out["cutplace_file"].startswith(os.path.abspath(repo)):
            out["results"].append({"name": a.unit + "/cutplace-location", "kind": "xcheck", "status": "error", "backend": "-", "time": 0, "function": None,
                                   "detail": "cutplace imported from %s, not from %s" % (out["cutplace_file"], repo), "model": None, "replay": None, "props": None, "bound": None, "cases": 0, "finding": None})
    except Exception as e:
        out["cutplace_file"] = "import failed: %r" % (e,)
    with open(a.out, "w") as f:
        f.write(dumps(out))
    return 0

if __name__ == "__main__":
    sys.exit(main())
