"""Known findings: committed file, read-only at run time.

Each entry: {"id": "K-1", "property": "C05", "status": "known" | "fixed", "what": "...", "witness": "...", "commit": "<sha, for fixed>"}
A `known` entry lets a contract exclude exactly the recorded failing region (the predicate lives next to the contract
clause and is listed in the evidence) while a witness unit replays the recorded input: if it still fails the check prints
KNOWN-FINDING and exits 0; any other counterexample is a VIOLATION. A `fixed` entry suppresses nothing.
"""
import json, os

_PATH = os.path.join(os.path.dirname(os.path.dirname(os.path.abspath(__file__))), "known_findings.json")
_cache = None

def load():
    global _cache
    if _cache is None:
        try:
            with open(_PATH) as f:
                _cache = json.load(f)["findings"]
        except FileNotFoundError:
            _cache = []
    return _cache

def get(fid):
    for e in load():
        if e["id"] == fid:
            return e
    return None

def is_known(fid, prop=None):
    e = get(fid)
    if e is None or e.get("status") != "known":
        return False
    if prop is not None:
        ps = e.get("properties") or [e.get("property")]
        return prop in ps
    return True
