"""Plain records exchanged between workers (one unit each) and the property driver."""
import json

PROVED = "proved"        # deductive obligation discharged by an SMT back end (unbounded)
REFUTED = "refuted"      # deductive obligation with a counter-model
UNKNOWN = "unknown"      # solver gave up within the resource budget
PASSED = "passed"        # bounded / audit / structural check passed
FAILED = "failed"        # bounded / audit / structural check found a concrete failing case on the real code
UNDECIDED = "undecided"  # contract could not bind to the source, construct outside the subset, audit could not run
ERROR = "error"          # the checker itself failed

DEDUCTIVE_KINDS = ("proof", "lemma", "protocol", "raises", "inv-entry", "inv-preserve", "termination", "unwind", "post", "frame", "struct")


class Result(dict):
    """One obligation or one bounded check.

    keys: name, kind, status, backend, time, function, detail, model, replay, props, bound, cases
    """

    def __init__(self, name, kind, status, backend="z3", time=0.0, function=None, detail="", model=None, replay=None,
                 props=None, bound=None, cases=0, finding=None):
        super().__init__(name=name, kind=kind, status=status, backend=backend, time=round(time, 4), function=function,
                         detail=detail, model=model, replay=replay, props=props, bound=bound, cases=cases, finding=finding)

    @property
    def deductive(self):
        return self["kind"] not in ("bounded", "audit", "xcheck", "sensitivity")


def dumps(obj):
    return json.dumps(obj, indent=1, default=str, ensure_ascii=True)
