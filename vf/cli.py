"""./check <Cnn> [--tier quick|thorough] [--replay <file>] [--unit <id>] [-j N] [-v]

Exit codes: 0 property held on everything explored (known findings reproduced and printed)
            1 violation: `VIOLATION property=<id> replay=<path>` (suffix no-failing-input-found when the counter-model
              could not be turned into a failing input of the real code)
            2 undecided (solver unknown within budget, contract cannot bind to the edited source, audit could not run)
            3 the checker itself failed (crash, vacuity guard, solver disagreement)
"""
import argparse, importlib, json, os, subprocess, sys, tempfile, time, shutil, concurrent.futures, warnings

HERE = os.path.dirname(os.path.dirname(os.path.abspath(__file__)))
REPO = os.environ.get("PYVC_REPO", "/repo")


def run_unit(prop, unit, tier, seed, tmpdir):
    out = os.path.join(tmpdir, unit.uid.replace("/", "_") + ".json")
    cmd = [sys.executable, "-m", "vf.worker", "--prop", prop, "--unit", unit.uid, "--tier", tier, "--seed", str(seed), "--out", out]
    env = dict(os.environ); env["PYTHONPATH"] = HERE + os.pathsep + REPO + os.pathsep + env.get("PYTHONPATH", ""); env.setdefault("PYTHONHASHSEED", "0")
    t0 = time.time()
    try:
        p = subprocess.run(cmd, cwd=HERE, env=env, capture_output=True, text=True, timeout=unit.timeout * (4 if tier == "thorough" else 1))
        err = p.stderr[-3000:]
        rc = p.returncode
    except subprocess.TimeoutExpired:
        err = "timeout after %ds" % unit.timeout; rc = -1
    res = None
    if os.path.exists(out):
        try:
            with open(out) as f:
                res = json.load(f)
        except ValueError:
            err = "worker wrote an unreadable result file; stderr: " + err
    if res is None:
        status = "undecided" if rc == -1 else "error"
        res = {"unit": unit.uid, "title": unit.title, "kind": unit.kind, "wall_s": round(time.time() - t0, 2), "functions": [], "assumptions": [], "samples": [], "stats": {},
               "results": [{"name": unit.uid + "/worker", "kind": "proof", "status": status, "backend": "-", "time": 0, "function": None, "detail": "worker rc=%s: %s" % (rc, err),
                            "model": None, "replay": None, "props": None, "bound": None, "cases": 0, "finding": None}]}
    res["stderr_tail"] = err[-500:] if rc != 0 else ""
    return res


def main(argv=None):
    ap = argparse.ArgumentParser(prog="check")
    ap.add_argument("prop"); ap.add_argument("--tier", default=os.environ.get("VERIF_TIER", "quick"), choices=["quick", "thorough"])
    ap.add_argument("--replay"); ap.add_argument("--unit", action="append"); ap.add_argument("-j", type=int, default=int(os.environ.get("VERIF_JOBS", "0")) or (os.cpu_count() or 4))
    ap.add_argument("-v", action="store_true"); ap.add_argument("--list", action="store_true"); ap.add_argument("--no-evidence", action="store_true")
    a = ap.parse_args(argv)
    warnings.filterwarnings("ignore")
    seed = int(os.environ.get("VERIF_SEED", "0") or 0)
    sys.path.insert(0, HERE); sys.path.insert(0, REPO)
    from vf import findings
    from vf.model import dumps
    prop = a.prop
    t_start = time.time()
    try:
        mod = importlib.import_module("props." + prop)
    except ModuleNotFoundError:
        print("no check for property", prop); return 3
    units = [u for u in mod.UNITS if (a.tier == "thorough" or u.tier == "quick")]
    if a.replay:
        with open(a.replay) as f:
            rec = json.load(f)
        print("replaying %s: obligation %s (unit %s)" % (a.replay, rec.get("obligation"), rec.get("unit")))
        print(dumps({k: rec.get(k) for k in ("input", "expected", "observed", "verdict")}))
        units = [u for u in units if u.uid == rec.get("unit")]
    if a.unit:
        units = [u for u in mod.UNITS if u.uid in a.unit]
    if a.list:
        for u in mod.UNITS: print("%-40s %-8s %-8s %s" % (u.uid, u.kind, u.tier, u.title))
        return 0
    tmpdir = tempfile.mkdtemp(prefix="vf_%s_" % prop)
    outcomes = []
    try:
        units_sorted = sorted(units, key=lambda u: -u.weight)
        with concurrent.futures.ThreadPoolExecutor(max_workers=max(1, a.j)) as pool:
            futs = {pool.submit(run_unit, prop, u, a.tier, seed, tmpdir): u for u in units_sorted}
            for fut in concurrent.futures.as_completed(futs):
                outcomes.append(fut.result())
    finally:
        shutil.rmtree(tmpdir, ignore_errors=True)
    order = {u.uid: i for i, u in enumerate(mod.UNITS)}
    outcomes.sort(key=lambda o: order.get(o["unit"], 0))
    return report(prop, mod, outcomes, a, seed, t_start, partial=bool(a.unit or a.replay))


def report(prop, mod, outcomes, a, seed, t_start, partial=False):
    from vf import findings
    from vf.model import dumps
    replay_dir = os.path.join(HERE, "replays"); os.makedirs(replay_dir, exist_ok=True)
    for f in os.listdir(replay_dir):
        if f.startswith(prop + "_") and not partial:
            os.unlink(os.path.join(replay_dir, f))
    violations = []; known = []; undecided = []; errors = []
    n_ded = n_dis = 0; by_backend = {}; solver_s = 0.0; bounded = []; functions = []; assumptions = []; samples = []; undischarged = []
    n_bounded_cases = 0; n_foreign = 0; foreign_failures = []; counted_units = set()
    for o in outcomes:
        functions += o.get("functions", []); samples += o.get("samples", [])[:2]
        for s in o.get("assumptions", []):
            if s not in assumptions: assumptions.append(s)
        for r in o["results"]:
            if r.get("props") and prop not in r["props"]:
                n_foreign += 1
                if os.environ.get("VF_DUMP_FOREIGN"): print("FOREIGN %s | %s | %s | %s" % (prop, o["unit"], r["name"], "/".join(r["props"])))
                if r["status"] in ("refuted", "failed") and not (r.get("finding") and any(findings.is_known(r["finding"], q) for q in r["props"])):
                    foreign_failures.append((o["unit"], r))
                continue
            counted_units.add(o["unit"])
            st = r["status"]; ded = r["kind"] not in ("bounded", "audit", "xcheck", "sensitivity")
            if ded and st in ("proved", "refuted", "unknown"):
                n_ded += 1; solver_s += r.get("time") or 0
            if st == "proved":
                n_dis += 1; by_backend[r["backend"]] = by_backend.get(r["backend"], 0) + 1
            elif st == "passed":
                if ded: n_ded += 1; n_dis += 1; by_backend[r["backend"]] = by_backend.get(r["backend"], 0) + 1
                else:
                    bounded.append({"check": r["name"], "kind": r["kind"], "bound": r.get("bound"), "cases": r.get("cases", 0), "unit": o["unit"]}); n_bounded_cases += r.get("cases", 0) or 0
            elif st in ("refuted", "failed"):
                fid = r.get("finding")
                if fid and findings.is_known(fid, prop):
                    known.append((fid, r)); continue
                if ded and st == "failed": n_ded += 1
                violations.append((o["unit"], r))
            elif st in ("unknown", "undecided"):
                undecided.append((o["unit"], r)); undischarged.append({"obligation": r["name"], "status": st, "detail": (r.get("detail") or "")[:300]})
            elif st == "error":
                errors.append((o["unit"], r))
    lines = []
    seen_k = set()
    for fid, r in known:
        if fid in seen_k: continue
        seen_k.add(fid)
        e = findings.get(fid)
        lines.append("KNOWN-FINDING: property=%s %s: %s" % (prop, fid, e.get("what", "")))
    vcount = 0
    # one VIOLATION line per (function, obligation) -- the same failed obligation on several paths / case splits is one violation;
    # confirmed replays first
    violations.sort(key=lambda ur: 0 if (ur[1].get("replay") or {}).get("verdict") == "confirmed" else 1)
    seen_v = set(); shown = []
    for unit, r in violations:
        key = (r.get("function") or unit, r["name"].split(" [")[0])
        if key in seen_v: continue
        seen_v.add(key); shown.append((unit, r))
    if len(shown) > 8:
        lines.append("(%d distinct failed obligations; the first 8 are reported, all are in the evidence file)" % len(shown))
    for unit, r in shown[:8]:
        vcount += 1
        rec = r.get("replay") or {"unit": unit, "obligation": r["name"], "verdict": "no-failing-input-found", "model": r.get("model"), "detail": r.get("detail")}
        rec["property"] = prop; rec["unit"] = unit; rec.setdefault("obligation", r["name"]); rec["function"] = r.get("function"); rec["solver_output"] = r.get("model"); rec["detail"] = r.get("detail")
        rec["replay_cmd"] = "./check %s --replay replays/%s_%d.json" % (prop, prop, vcount)
        path = os.path.join(replay_dir, "%s_%d.json" % (prop, vcount))
        with open(path, "w") as f: f.write(dumps(rec))
        suffix = "" if rec.get("verdict") == "confirmed" else " no-failing-input-found"
        lines.append("VIOLATION property=%s replay=%s%s" % (prop, path, suffix))
        lines.append("  failed obligation: %s" % r["name"])
        if rec.get("verdict") == "confirmed":
            lines.append("  failing input on the real code: %s" % (str(rec.get("input"))[:400]))
            lines.append("  expected: %s | observed: %s" % (str(rec.get("expected"))[:200], str(rec.get("observed"))[:200]))
    for unit, r in undecided:
        lines.append("UNDECIDED %s: %s (%s)" % (unit, r["name"], (r.get("detail") or "").strip().splitlines()[-1][:200] if r.get("detail") else r["status"]))
    for unit, r in errors:
        lines.append("CHECKER-ERROR %s: %s\n%s" % (unit, r["name"], (r.get("detail") or "")[-1500:]))
    seen_f = set()
    for unit, r in foreign_failures:
        if r["name"] in seen_f: continue
        seen_f.add(r["name"])
        lines.append("NOTE %s: obligation %s fails; it is attributed to %s, not to %s, and does not count here" % (unit, r["name"], "/".join(r["props"]), prop))
    idle = [o["unit"] for o in outcomes if o["unit"] not in counted_units and o["results"]]
    for u in idle:
        lines.append("NOTE %s: none of this unit's obligations is attributed to %s (it contributes nothing to this check)" % (u, prop))
    wall = time.time() - t_start
    level = getattr(mod, "LEVEL", "other")
    rc = 1 if violations else (3 if errors else (2 if undecided else 0))
    cov = {
        "obligations": n_ded, "discharged": n_dis,
        "checker_cmd": "./check %s --tier %s" % (prop, a.tier),
        "trusted_base": list(getattr(mod, "TRUSTED_BASE", [])) + ["pyvc: the encoding of the Python subset into SMT (audited on every run by running the native oracle of each contract against the real code)", "z3 5.1 (API) and cvc5 1.0.3 (CLI) as back ends"],
        "explanation": getattr(mod, "EXPLANATION", ""),
        "discharged_by_backend": by_backend, "solver_time_s": round(solver_s, 3),
        "functions_under_contract": functions,
        "bounded_stand_ins": bounded, "bounded_cases_total": n_bounded_cases,
        "undischarged": undischarged,
        "known_findings_reproduced": sorted(seen_k),
        "obligations_attributed_to_other_properties_only": n_foreign, "units_contributing_nothing": idle,
        "units": [{"unit": o["unit"], "kind": o["kind"], "title": o["title"], "wall_s": o["wall_s"], "stats": o.get("stats", {}),
                   "results": _count(o["results"], prop)} for o in outcomes],
        "samples": samples[:12] or [{"note": "no obligation sample recorded"}],
        "exit_code": rc,
    }
    if n_bounded_cases:
        cov["evaluations"] = n_bounded_cases
    for fid in sorted(seen_k):
        assumptions.append("known finding %s (recorded, not repaired): %s" % (fid, findings.get(fid).get("what", "")))
    ev = {"property_id": prop, "tier": a.tier, "seed": seed, "level": level, "coverage": cov,
          "assumptions": assumptions + list(getattr(mod, "ASSUMPTIONS", [])), "wall_s": round(wall, 2), "violations": len(violations)}
    if not partial and not a.no_evidence:
        os.makedirs(os.path.join(HERE, "evidence"), exist_ok=True)
        with open(os.path.join(HERE, "evidence", prop + ".json"), "w") as f: f.write(dumps(ev))
    print("%s %s tier=%s: %d deductive obligations, %d discharged %s; %d bounded checks (%d cases); %d functions under contract; %.1fs"
          % (prop, getattr(mod, "TITLE", ""), a.tier, n_ded, n_dis, by_backend, len(bounded), n_bounded_cases, len(functions), wall))
    if a.v:
        for o in outcomes:
            print("  unit %-36s %-8s %6.1fs %s" % (o["unit"], o["kind"], o["wall_s"], _count(o["results"], prop)))
            for r in o["results"]:
                if r["status"] not in ("proved", "passed"):
                    print("      %-9s %s %s" % (r["status"], r["name"], (r.get("detail") or "")[:300].replace("\n", " | ")))
                    if r.get("model"): print("          model: " + str(r["model"])[:600].replace("\n", "; "))
    for l in lines: print(l)
    print("%s: %s" % (prop, {0: "HOLDS", 1: "VIOLATED", 2: "UNDECIDED", 3: "CHECKER FAILED"}[rc]))
    return rc


def _count(results, prop):
    c = {}
    for r in results:
        if r.get("props") and prop not in r["props"]: continue
        c[r["status"]] = c.get(r["status"], 0) + 1
    return c


if __name__ == "__main__":
    sys.exit(main())
