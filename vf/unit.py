"""Units of verification work. A unit is run by one worker process and returns Results.

ProofUnit     real function (read from /repo on this run) + sidecar contract -> VCs -> z3/cvc5; on a refuted VC the
              counter-model is turned into a concrete input and replayed on the real code (native oracle)
NativeUnit    bounded stand-in / axiom audit / structural scan: runs natively, labelled as such, never counted as proved
"""
import os, sys, time, traceback, json, itertools, random
from .model import *

REPO = os.environ.get("PYVC_REPO", "/repo")


class Ctx:
    def __init__(self, tier="quick", seed=0, prop=None):
        self.tier = tier; self.seed = seed; self.prop = prop
        self.rng = random.Random(seed)
    @property
    def thorough(self): return self.tier == "thorough"


class Unit:
    kind = "unit"
    def __init__(self, uid, title, props, tier="quick", timeout=900, weight=1):
        self.uid = uid; self.title = title; self.props = tuple(props); self.tier = tier; self.timeout = timeout; self.weight = weight
    def run(self, ctx):
        raise NotImplementedError
    def also(self, *props):
        """list this unit under further properties: every obligation of it then counts for them too (used where a property depends on the
        whole contract of a function whose clauses were written for, and are attributed to, another property)"""
        self.extra_props = tuple(props); self.props = tuple(self.props) + tuple(p for p in props if p not in self.props)
        return self
    def execute(self, ctx):
        t0 = time.time()
        try:
            out = self.run(ctx)
        except Exception as e:
            from pyvc.verify import BindingError
            from pyvc.symexec import Unsupported
            if isinstance(e, (BindingError, Unsupported)):
                out = {"results": [Result(self.uid + "/bind", "proof", UNDECIDED, backend="ast", detail="%s: %s" % (type(e).__name__, e))]}
            else:
                out = {"results": [Result(self.uid + "/crash", "proof", ERROR, backend="-", detail=traceback.format_exc()[-3000:])]}
        for r in out.get("results", []):
            if getattr(self, "extra_props", None) and r.get("props"):
                r["props"] = list(r["props"]) + [p for p in self.extra_props if p not in r["props"]]
        out.setdefault("functions", []); out.setdefault("assumptions", []); out.setdefault("samples", []); out.setdefault("stats", {})
        out["unit"] = self.uid; out["title"] = self.title; out["kind"] = self.kind; out["wall_s"] = round(time.time() - t0, 3)
        return out


class Oracle:
    """Native side of a contract: evaluates the same specification on concrete inputs against the real code.

    check(case) -> None if the real code agrees with the contract, else a dict(expected=..., observed=...)
    cases(ctx)  -> iterable of small-scope cases (used as bounded stand-in / CPython cross-check and as replay search space)
    from_model(ob) -> case built from a counter-model (may return None)
    """
    bound = ""
    quick_cases = 150; thorough_cases = 20000
    def check(self, case): raise NotImplementedError
    def cases(self, ctx): return ()
    def from_model(self, ob): return None
    def describe(self, case): return repr(case)


def replay_refuted(unit, ob, oracle, ctx, limit_s=60):
    """Turn a refuted obligation into a replay record (confirmed on the real code, or no-failing-input-found)."""
    rec = {"unit": unit.uid, "obligation": ob.name, "kind": ob.kind, "solver": ob.backend, "detail": str(ob.info)[:1500],
           "model": model_text(ob.model), "verdict": "no-failing-input-found", "input": None}
    if oracle is None:
        return rec
    tried = 0
    try:
        case = oracle.from_model(ob)
    except Exception as e:
        case = None; rec["from_model_error"] = repr(e)
    t0 = time.time()
    seq = itertools.chain([case] if case is not None else [], oracle.cases(ctx))
    for c in seq:
        tried += 1
        try:
            bad = oracle.check(c)
        except Exception as e:
            bad = {"expected": "oracle to run", "observed": "oracle crashed: %r" % (e,)}
        if bad:
            rec.update(verdict="confirmed", input=oracle.describe(c), expected=bad.get("expected"), observed=bad.get("observed"),
                       from_model=(c is case and case is not None))
            break
        if time.time() - t0 > limit_s:
            break
    rec["cases_tried"] = tried
    return rec


def model_text(m, limit=4000):
    if m is None: return None
    try:
        parts = []
        for d in m.decls():
            parts.append("%s = %s" % (d.name(), m[d]))
        return "\n".join(parts)[:limit]
    except Exception as e:
        return "<model unavailable: %r>" % (e,)


class ProofUnit(Unit):
    kind = "proof"
    def __init__(self, uid, title, props, make, oracle=None, xcheck=True, **kw):
        """make(ctx) -> dict(contract=..., callees=..., spec_functions=..., assumptions=[...]) or a list of such dicts
        (several runs of the same function, e.g. one per case of a finite case split)."""
        super().__init__(uid, title, props, **kw)
        self.make = make; self.oracle = oracle; self.xcheck = xcheck

    def run(self, ctx):
        from pyvc import verify as V
        from pyvc.symexec import Unsupported
        made = self.make(ctx)
        runs = made if isinstance(made, list) else [made]
        results = []; functions = []; assumptions = []; samples = []; stats = {"paths": 0, "symexec_s": 0.0, "solver_s": 0.0}
        oracle = self.oracle() if isinstance(self.oracle, type) else self.oracle
        for r in runs:
            label = r.get("label", "")
            try:
                rep = V.verify(r["contract"], r.get("callees"), r.get("spec_functions"), r.get("options"))
            except Exception as e:
                if os.environ.get("VF_DEBUG"):
                    import traceback as _tb; print(_tb.format_exc())
                if not isinstance(e, (V.BindingError, Unsupported)):
                    import traceback as _tb
                    e = Unsupported("engine failure on the current source: %r at %s" % (e, _tb.format_exc().strip().splitlines()[-3:]))
                # the contract cannot be bound to / the engine cannot follow the current source: undecided for the deductive part;
                # the native oracle below still runs (bounded), so a real violation is not hidden behind the tool limit
                results.append(Result(self.uid + "/bind" + (" [%s]" % label if label else ""), "proof", UNDECIDED, backend="ast", detail="%s: %s" % (type(e).__name__, e), function=r["contract"].qualname))
                continue
            V.discharge_all(rep, both=ctx.thorough)
            sha, l0, l1 = rep["source"]
            functions.append({"function": "cutplace." + rep["function"], "file": rep["file"], "lines": [l0, l1], "sha256_16": sha, "case": label,
                              "inlined_real_code": rep["inlined"], "paths": rep["paths"], "outcomes": rep["outcomes"]})
            stats["paths"] += rep["paths"]; stats["symexec_s"] += rep["symexec_s"]
            assumptions += r.get("assumptions", [])
            if len(rep["obligations"]) <= 1:
                results.append(Result(self.uid + "/no-obligations", "vacuity", ERROR, detail="the harness generated no obligation"))
            for ob in rep["obligations"]:
                stats["solver_s"] += ob.time
                nm = ob.name + (" [%s]" % label if label else "")
                if ob.result == "proved":
                    results.append(Result(nm, ob.kind, PROVED, ob.backend, ob.time, rep["function"], props=ob.props))
                elif ob.result == "refuted":
                    rec = replay_refuted(self, ob, oracle, ctx)
                    results.append(Result(nm, ob.kind, REFUTED, ob.backend, ob.time, rep["function"], detail=str(ob.info)[:800], model=rec["model"], replay=rec,
                                          props=ob.props, finding=ob.info.get("finding") if isinstance(ob.info, dict) else None))
                elif ob.result == "UNREACHABLE" and ob.name.endswith("/cover/return"):
                    # no input makes the function return normally any more: every property stated on its result is broken
                    # (on the unchanged tree this obligation holds, so this is a statement about the changed code, not about the contract)
                    rec = replay_refuted(self, ob, oracle, ctx)
                    rec["detail"] = "no input lets %s return normally: the normal outcome the contract expects is unreachable" % rep["function"]
                    results.append(Result(nm, "post", REFUTED, ob.backend, ob.time, rep["function"], detail=rec["detail"], model=None, replay=rec, props=ob.props or list(self.props)))
                elif ob.result in ("VACUOUS", "UNREACHABLE"):
                    results.append(Result(nm, ob.kind, ERROR, ob.backend, ob.time, rep["function"], detail="vacuity guard: %s" % ob.result, props=ob.props))
                elif ob.result == "disagree":
                    results.append(Result(nm, ob.kind, ERROR, "z3+cvc5", ob.time, rep["function"], detail="solver disagreement: z3 unsat, cvc5 sat", props=ob.props))
                else:
                    results.append(Result(nm, ob.kind, UNKNOWN, ob.backend, ob.time, rep["function"], detail=str(ob.info)[:300], props=ob.props))
            if not samples:
                for ob in rep["obligations"][1:4]:
                    samples.append({"obligation": ob.name, "kind": ob.kind, "path_condition_size": len(ob.pc), "goal": str(ob.goal)[:300], "result": ob.result, "backend": ob.backend})
        # CPython cross-check of the contract itself: the native oracle must agree with the real code on the unchanged tree
        if oracle is not None and self.xcheck:
            t0 = time.time(); n = 0; bad = None; badcase = None
            limit = getattr(oracle, 'thorough_cases', 20000) if ctx.thorough else getattr(oracle, 'quick_cases', 150)
            for c in oracle.cases(ctx):
                n += 1
                b = oracle.check(c)
                if b: bad = b; badcase = c; break
                if n >= limit: break
            if n:
                if bad:
                    rec = {"unit": self.uid, "obligation": self.uid + "/native-oracle", "verdict": "confirmed", "input": oracle.describe(badcase),
                           "expected": bad.get("expected"), "observed": bad.get("observed"), "model": None}
                    results.append(Result(self.uid + "/native-oracle", "xcheck", FAILED, "native", time.time() - t0, detail=str(bad)[:500], replay=rec, cases=n, bound=oracle.bound))
                else:
                    results.append(Result(self.uid + "/native-oracle", "xcheck", PASSED, "native", time.time() - t0, cases=n, bound=oracle.bound))
        stats["symexec_s"] = round(stats["symexec_s"], 3); stats["solver_s"] = round(stats["solver_s"], 3)
        return {"results": results, "functions": functions, "assumptions": assumptions, "samples": samples, "stats": stats}


class NativeUnit(Unit):
    """Bounded stand-in, axiom audit or structural scan. fn(ctx) -> dict(results=[...], ...) or list of Results."""
    def __init__(self, uid, title, props, fn, kind="bounded", **kw):
        super().__init__(uid, title, props, **kw)
        self.fn = fn; self.kind = kind
    def run(self, ctx):
        out = self.fn(ctx)
        if isinstance(out, list): out = {"results": out}
        return out


def _printable(x):
    """`x` with every int Python refuses to print (more than 4300 digits) replaced by a description, so that a case holding one can be reported."""
    if isinstance(x, int) and not isinstance(x, bool) and x.bit_length() > 10000: return "<int of %d bits, %s>" % (x.bit_length(), "negative" if x < 0 else "positive")
    if isinstance(x, dict): return {_printable(k): _printable(v) for k, v in x.items()}
    if isinstance(x, (list, tuple)): return type(x)(_printable(v) for v in x) if type(x) in (list, tuple) else x
    return x


def _printable_description(describe):
    def described(c):
        try: return _printable(describe(c))
        except ValueError: return _printable(describe(_printable(c)))
    return described


def sweep(name, cases, check, kind="bounded", bound="", describe=repr, function=None, props=None, max_fail=1, unit=None):
    """Run `check(case)` over `cases`; returns one Result (PASSED with the count, or FAILED with the first failing case)."""
    t0 = time.time(); n = 0; first_bad = None
    describe = _printable_description(describe)
    for c in cases:
        n += 1
        try:
            bad = check(c)
        except Exception as e:
            # the oracle's own calls into the real code ended in an exception it does not anticipate: on the unchanged tree this never happens
            # (the sweep passes), so it is a change of behaviour of the code under test, reported with the case that shows it
            import traceback as _tb
            bad = {"expected": "the calls of the oracle complete (as they do on the unchanged tree)", "observed": "%s: %s  [%s]" % (type(e).__name__, str(e)[:200], " <- ".join(l.strip() for l in _tb.format_exc().strip().splitlines()[-4:-1])[:300])}
        if bad and os.environ.get("VF_SWEEP_ALL") and not bad.get("finding"):      # debugging aid: log every failing case of a sweep to the named file; the verdict is unchanged
            with open(os.environ["VF_SWEEP_ALL"], "a") as _f: _f.write("SWEEP-FAIL %s: %s -> %s\n" % (name, describe(c), bad))
            if first_bad is None: first_bad = (c, bad, n)
            continue
        if bad:
            rec = {"unit": unit, "obligation": name, "verdict": "confirmed", "input": describe(c), "expected": bad.get("expected"), "observed": bad.get("observed"), "model": None}
            return Result(name, kind, FAILED, "native", time.time() - t0, function, detail=("%s -> %s" % (describe(c), bad))[:800], replay=rec, props=props, bound=bound, cases=n,
                          finding=bad.get("finding"))
    if first_bad is not None:
        c, bad, n1 = first_bad
        rec = {"unit": unit, "obligation": name, "verdict": "confirmed", "input": describe(c), "expected": bad.get("expected"), "observed": bad.get("observed"), "model": None}
        return Result(name, kind, FAILED, "native", time.time() - t0, function, detail=("%s -> %s" % (describe(c), bad))[:800], replay=rec, props=props, bound=bound, cases=n1, finding=bad.get("finding"))
    if n == 0:
        return Result(name, kind, ERROR, "native", time.time() - t0, function, detail="no case generated", props=props, bound=bound)
    return Result(name, kind, PASSED, "native", time.time() - t0, function, props=props, bound=bound, cases=n)
